---- MODULE ValuesGen ----
(***************************************************************************)
(* GEN for values: TLC derives, from each simple type's own definition in   *)
(* Schema, the tokens that probe it -- every enumeration literal, literals  *)
(* of other types, numbers at and one off every declared bound, one word    *)
(* through every edge of every pattern automaton and its one-edit mutants,  *)
(* generic strings with exterior / interior white space, floats of several  *)
(* magnitudes, bools and non-finite floats.  One reported record per         *)
(* (simple type, token).  The replayer offers them at the slots (attribute   *)
(* or element text) of that type; ValuesTrace judges.                        *)
(***************************************************************************)
EXTENDS Lexical, Report, TLC

CONSTANT Types    \* simple type names handled by this run

\* ---- helpers: integers and strings as code points -------------------------
RECURSIVE NatCps(_)
NatCps(n) == IF n < 10 THEN <<48 + n>> ELSE NatCps(n \div 10) \o <<48 + (n % 10)>>
IntCps(n) == IF n < 0 THEN <<45>> \o NatCps(0 - n) ELSE NatCps(n)

Tok(kind, s) == [kind |-> kind, s |-> s, m |-> 0, e |-> 0]
FloatTok(m, e) == [kind |-> "float", s |-> <<>>, m |-> m, e |-> e]    \* value m * 10^e; text filled in by the replayer

\* a representative code point of a class (prefer a letter, then a digit)
Rep(cls) == IF InCls(cls, 97) THEN 97 ELSE IF InCls(cls, 49) THEN 49 ELSE IF InCls(cls, 65) THEN 65 ELSE cls[1][1]
PatWords(pid) == LET A == PAT[pid] IN {[i \in DOMAIN pth |-> Rep(A.lab[pth[i]])] : pth \in EdgeCoverPaths(A)}
                   \cup (IF A.nullable THEN {<<>>} ELSE {})
Mutants(w) == {w \o <<44>>, w \o <<32, 33>>, <<58>> \o w} \cup (IF w = <<>> THEN {} ELSE {SubSeq(w, 1, Len(w) - 1)})

Generic == {<<>>, <<120>>, <<32, 120, 32>>, <<97, 32, 32, 98>>, <<49>>, <<10, 121, 101, 115, 9>>,
            <<122, 122, 45, 110, 111, 116, 45, 97, 45, 108, 105, 116, 101, 114, 97, 108>>,     \* "zz-not-a-literal"
            <<50, 48, 50, 52, 45, 48, 50, 45, 50, 57>>, <<50, 48, 50, 51, 45, 48, 50, 45, 51, 48>>,   \* 2024-02-29, 2023-02-30
            <<35, 70, 70, 48, 48, 65, 65>>, <<49, 44, 32, 50>>, <<101, 110>>,
            \* years beyond four digits are dates too: 10000-01-01, 12024-02-29, -10000-06-30, 12023-02-29 (no such day)
            <<49, 48, 48, 48, 48, 45, 48, 49, 45, 48, 49>>, <<49, 50, 48, 50, 52, 45, 48, 50, 45, 50, 57>>,
            <<45, 49, 48, 48, 48, 48, 45, 48, 54, 45, 51, 48>>, <<49, 50, 48, 50, 51, 45, 48, 50, 45, 50, 57>>,
            \* white space of Unicode that is NOT white space of XML (NBSP, EM SPACE) is ordinary content: "1,<nbsp>2", "a<emsp>b"
            <<49, 44, 160, 50>>, <<97, 8195, 98>>}
\* every blank of a word replaced by NBSP / EM SPACE: collapsing (whiteSpace facet) must not touch them, patterns must not match them as blanks
OtherSpace(w) == IF \E i \in DOMAIN w : w[i] = 32
                 THEN {[i \in DOMAIN w |-> IF w[i] = 32 THEN c ELSE w[i]] : c \in {160, 8195}} ELSE {}
\* literals of *other* types (every enumeration literal of every type is offered to every type in the thorough tier)
ForeignLiterals == {<<121, 101, 115>>, <<117, 112>>, <<115, 116, 97, 114, 116>>, <<110, 111, 114, 109, 97, 108>>}

\* C16: strings over representative code points of the XML Char production (markup characters, quotes, blanks,
\* TAB, LF, Latin-1, the BMP boundaries, non-BMP); CR excluded as the property says
EscAlphabet == {60, 62, 38, 34, 39, 32, 9, 10, 233, 55295, 57344, 65533, 65536, 1114111, 97}
EscLen == 2
EscStrings == UNION {[1..n -> EscAlphabet] : n \in 1..EscLen}
FreeString(d) == d.prim = "string" /\ ~d.hasEnum /\ d.pats = <<>> /\ d.union = <<>>

RECURSIVE LeafTypes(_)
LeafTypes(tn) == IF ST[tn].union # <<>> THEN UNION {LeafTypes(ST[tn].union[i]) : i \in DOMAIN ST[tn].union} ELSE {tn}

\* 10^400 (beyond the range of a double) and 2^53 + 1 (beyond its precision): valid xs:decimal / xs:integer values
BigInt == <<49>> \o [i \in 1..400 |-> 48]
Int53 == <<57, 48, 48, 55, 49, 57, 57, 50, 53, 52, 55, 52, 48, 57, 57, 51>>
Bounds(d) == (IF d.hasMin THEN {d.minV - 1, d.minV, d.minV + 1} ELSE {}) \cup
             (IF d.hasMax THEN {d.maxV - 1, d.maxV, d.maxV + 1} ELSE {})
\* the literals of the type this type restricts (a restriction must refuse what it removed)
BaseLiterals(tn) == IF tn \in DeclaredSimple /\ STDecl[tn].base \in DOMAIN ST THEN ST[STDecl[tn].base].enumcp ELSE {}
LeafTokens(tn) ==
  LET d == ST[tn] IN
     {Tok("str", e) : e \in d.enumcp \cup BaseLiterals(tn)}
  \cup UNION {{Tok("str", w) : w \in PatWords(pid) \cup UNION {Mutants(x) : x \in PatWords(pid)}} : pid \in UNION {d.pats[g] : g \in DOMAIN d.pats}}
  \cup UNION {{Tok("str", v) : v \in UNION {OtherSpace(w) : w \in PatWords(pid)}} : pid \in UNION {d.pats[g] : g \in DOMAIN d.pats}}
  \cup {Tok("str", v) : v \in UNION {OtherSpace(e) : e \in d.enumcp}}
  \cup (IF d.prim = "decimal"
        THEN {Tok("int", IntCps(n)) : n \in Bounds(d) \cup {0 - 1, 0, 1, 7}}
             \cup {FloatTok(m, e) : m \in {15, 0 - 15}, e \in {0 - 1}}                 \* +-1.5
             \cup {FloatTok(n * 10 + 5, 0 - 1) : n \in (Bounds(d) \cup {0})}             \* bound + 0.5
             \cup {FloatTok(n * 10, 0 - 1) : n \in (Bounds(d) \cup {3})}                 \* 3.0, bound.0
             \cup {FloatTok(1, e) : e \in {0 - 7, 0 - 5, 0 - 4, 15, 16, 22}}             \* magnitudes (repr switches to exponent form)
             \cup {Tok("str", IntCps(n)) : n \in {1}}                                   \* numeric text offered as str
             \cup {Tok("int", BigInt), Tok("int", Int53)}                               \* ints no binary float can hold
        ELSE {Tok("int", IntCps(1)), FloatTok(15, 0 - 1)})
  \cup (IF FreeString(d) THEN {Tok("str", x) : x \in EscStrings} ELSE {})

Tokens(tn) ==
     UNION {LeafTokens(l) : l \in LeafTypes(tn)}
  \cup {Tok("str", g) : g \in Generic \cup ForeignLiterals}
  \cup {Tok("special", x) : x \in {<<110, 97, 110>>, <<105, 110, 102>>, <<45, 105, 110, 102>>,           \* nan inf -inf
                                   <<84, 114, 117, 101>>, <<70, 97, 108, 115, 101>>}}                    \* True False
  \cup {Tok("none", <<>>)}

VARIABLES tn, tok
Init == tn \in Types /\ tok \in Tokens(tn)
Next == UNCHANGED <<tn, tok>>
Spec == Init /\ [][Next]_<<tn, tok>>
Emit == Report([st |-> tn, tok |-> tok])
====
