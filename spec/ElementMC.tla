---- MODULE ElementMC ----
(***************************************************************************)
(* MC of the specification itself: the clauses of Element.tla as the       *)
(* transition relation of a state machine over the REAL content-model       *)
(* automata.  A step is any outcome (accepted with some schema-ordered       *)
(* view, or rejected) that violates no clause.  TLC checks that              *)
(*   - the clause set is consistent: in every reachable state every call     *)
(*     has at least one outcome no clause forbids (AddDecidable, ...): a     *)
(*     matcher satisfying all properties at once exists within the bounds;   *)
(*   - completability is an invariant (Inv_Ext) -- in particular it is       *)
(*     closed under remove and same-name replace, which C07 needs;           *)
(*   - a completable bag can really be completed (Inv_Complete): the          *)
(*     "equivalently" of C07;                                                *)
(*   - the schema-ordered view can always be kept a scattered subword of a   *)
(*     valid word (Inv_SubOrd), which is what makes C01 reachable.           *)
(* The one design decision beyond the clauses is stated in AcceptedOrders:   *)
(* an accepted add may re-home the children; it leaves the ordered view a     *)
(* scattered-subword order, equal to the insertion order when that is a       *)
(* valid word (C02) and equal to the unique arrangement when there is one     *)
(* (C12) -- the two never conflict, which TLC confirms (AddDecidable).        *)
(***************************************************************************)
EXTENDS Element, SchemaDerived, TLC

CONSTANTS Types, SigmaOf, MaxChildren, MaxKids

VARIABLES t, s, pure
vars == <<t, s, pure>>

M == ModelOf[t]
A == M.A
Sigma == SigmaOf[t]

OKRes == [ok |-> TRUE, exc |-> "", mro |-> <<>>, out |-> 0, err |-> 0, nonemsg |-> FALSE]
RejRes == [ok |-> FALSE, exc |-> "XMLChildContainerWrongElementError",
           mro |-> <<"XMLChildContainerWrongElementError", "XMLChildContainerException", "Exception">>, out |-> 0, err |-> 0, nonemsg |-> FALSE]
ReqRes == [ok |-> FALSE, exc |-> "XMLElementChildrenRequired", mro |-> <<"XMLElementChildrenRequired", "XMLElementException", "Exception">>,
           out |-> 0, err |-> 0, nonemsg |-> FALSE]
Empty == [ins |-> <<>>, ord |-> <<>>, insw |-> <<>>, ordw |-> <<>>, kids |-> <<>>, parof |-> <<>>, chk |-> TRUE, attrs |-> <<>>, val |-> ""]

NameOf(st, k) == st.insw[IndexOf(st.ins, k)]
Names(st, o) == [j \in DOMAIN o |-> NameOf(st, o[j])]
InsertAt(o, j, k) == [i \in 1..(Len(o) + 1) |-> IF i < j THEN o[i] ELSE IF i = j THEN k ELSE o[i - 1]]

\* the word w, in this order, is a scattered subword of a word of L(A)
RECURSIVE SubRun(_, _, _)
SubRun(S, w, i) == IF i > Len(w) THEN S
                   ELSE SubRun({q \in Pos(A) : A.lab[q] = w[i] /\ \E p \in S : q \in M.P[p]}, w, i + 1)
SubwordSeq(w) == Len(w) = 0 \/ SubRun({q \in M.FD : A.lab[q] = w[1]}, w, 2) # {}

Init == t \in Types /\ s = Empty /\ pure = TRUE

\* ---- add ---------------------------------------------------------------------
WithKid(st, k) == [st EXCEPT !.kids = Append(@, k), !.parof = Append(@, 0)]
Accepted(st, k, a, o) ==
  LET b == WithKid(st, k)
      c == [b EXCEPT !.ins = Append(@, k), !.insw = Append(@, a), !.parof = [@ EXCEPT ![Len(b.kids)] = 1]]
  IN [c EXCEPT !.ord = o, !.ordw = Names(c, o)]
Perms(q) == {f \in [DOMAIN q -> Range(q)] : \A i, j \in DOMAIN q : i # j => f[i] # f[j]}
AcceptedOrders(st, k, a) ==       \* the design decision (see header); an add may re-home the children already present
  LET insw2 == Append(st.insw, a)
      ins2 == Append(st.ins, k)
  IN {o \in Perms(ins2) :
        LET c == Accepted(st, k, a, o) IN
        /\ SubwordSeq(c.ordw)
        /\ ((pure /\ Accepts(A, insw2)) => o = ins2)
        /\ ((pure /\ UniqueArr(A, insw2)) => (c.ordw = TheArr(A, insw2) /\ SameNameStable(c)))}
AddOutcomes(a) ==
  LET k == Len(s.kids) + 1 IN
  {c \in {<<RejRes, WithKid(s, k)>>} \cup {<<OKRes, Accepted(s, k, a, o)>> : o \in AcceptedOrders(s, k, a)} :
      Failing(AddClauses(M, s, k, a, NoFwd, pure, TRUE, c[1], c[2])) = {}}
Add(a) == /\ Len(s.kids) < MaxKids /\ Len(s.ins) < MaxChildren
          /\ \E c \in AddOutcomes(a) : s' = c[2] /\ pure' = (pure /\ c[1].ok)
          /\ UNCHANGED t

\* ---- remove --------------------------------------------------------------------
Removed(i) ==
  LET k == s.ins[i]  j == IndexOf(s.ord, k)  kp == IndexOf(s.kids, k)
  IN [s EXCEPT !.ins = Without(@, i), !.insw = Without(@, i), !.ord = Without(@, j), !.ordw = Without(@, j),
               !.parof = [@ EXCEPT ![kp] = 0]]
RemoveOutcomes(i) == {c \in {<<OKRes, Removed(i)>>} : Failing(RemoveClauses(M, s, i, c[1], c[2])) = {}}
Remove(i) == /\ \E c \in RemoveOutcomes(i) : s' = c[2]
             /\ pure' = FALSE /\ UNCHANGED t

\* ---- replace (same name: in place; other name: like remove + add, or refused) ------
Replaced(i, k, a, o) ==
  LET old == s.ins[i]  b == WithKid(s, k)
      c == [b EXCEPT !.ins = Subst(@, i, k), !.insw = Subst(@, i, a),
                     !.parof = [@ EXCEPT ![Len(b.kids)] = 1, ![IndexOf(s.kids, old)] = 0]]
  IN [c EXCEPT !.ord = o, !.ordw = Names(c, o)]
ReplaceOrders(i, k, a) ==
  LET old == s.ins[i]  j == IndexOf(s.ord, old)  rest == Without(s.ord, j)
  IN IF a = s.insw[i] THEN {Subst(s.ord, j, k)}
     ELSE {o \in {InsertAt(rest, p, k) : p \in 1..(Len(rest) + 1)} : SubwordSeq(Names(Replaced(i, k, a, o), o))}
ReplaceOutcomes(i, a) ==
  LET k == Len(s.kids) + 1 IN
  {c \in {<<RejRes, WithKid(s, k)>>} \cup {<<OKRes, Replaced(i, k, a, o)>> : o \in ReplaceOrders(i, k, a)} :
      Failing(ReplaceClauses(M, s, i, k, a, c[1], c[2])) = {}}
Replace(i, a) == /\ Len(s.kids) < MaxKids
                 /\ \E c \in ReplaceOutcomes(i, a) : s' = c[2]
                 /\ pure' = FALSE /\ UNCHANGED t

\* ---- to_string ------------------------------------------------------------------
ToStringOutcomes == {c \in {<<OKRes, s>>, <<ReqRes, s>>} :
                        Failing(ToStringClauses(M, s, FALSE, pure, c[1], c[2], (IF c[1].ok THEN s.ordw ELSE <<>>))) = {}}
ToStr == ToStringOutcomes # {} /\ UNCHANGED vars      \* changes nothing by C16

Next == \/ \E a \in Sigma : Add(a)
        \/ \E i \in DOMAIN s.ins : Remove(i)
        \/ \E i \in DOMAIN s.ins : \E a \in Sigma : Replace(i, a)
        \/ ToStr
Spec == Init /\ [][Next]_vars

\* ---- what TLC checks --------------------------------------------------------------
Inv_WellFormed == WellFormed(s) /\ IsPerm(s.ord, s.ins)
Inv_Ext == s.chk => Ext(A, M.P, M.FD, s.insw)                         \* C07 as a state invariant
Inv_SubOrd == SubwordSeq(s.ordw)
\* consistency: no call is left without an outcome that every clause permits
AddDecidable == (Len(s.kids) < MaxKids /\ Len(s.ins) < MaxChildren) => \A a \in Sigma : AddOutcomes(a) # {}
RemoveDecidable == \A i \in DOMAIN s.ins : RemoveOutcomes(i) # {}
ReplaceDecidable == Len(s.kids) < MaxKids => \A i \in DOMAIN s.ins : \A a \in Sigma : ReplaceOutcomes(i, a) # {}
ToStringDecidable == ToStringOutcomes # {}
\* a valid arrangement of the children is serialised: when the ordered view is a word of the language, success is allowed
SuccessAllowed == Accepts(A, s.ordw) => <<OKRes, s>> \in ToStringOutcomes
\* C07's "equivalently": a completable bag has a completion (searched among the words that are at most
\* about twice as long; evaluated for alphabets of at most 6 names and at most 2 children, where the search is small)
MinWordLen == IF A.nullable THEN 0
              ELSE LET f == SPFrom(A) IN
                   LET lens == {1 + Len(f[q]) : q \in A.first} IN CHOOSE m \in lens : \A x \in lens : m <= x
Inv_Complete == (Len(Alphabet[t]) <= 6 /\ Len(s.insw) <= 2 /\ Ext(A, M.P, M.FD, s.insw)) =>
                   \E w \in WordsUpTo(A, 2 * Len(s.insw) + MinWordLen + 1) :
                      \A a \in Sigma : Cardinality({j \in DOMAIN w : w[j] = a}) >= Cardinality({j \in DOMAIN s.insw : s.insw[j] = a})
====
