---- MODULE DocumentGen ----
(* GEN for documents: for every element-content type, one shortest valid child word through every follow edge *)
(* of its automaton (EdgeCover) plus the shortest valid word.  The document builder (harness/schemadoc.py,     *)
(* schema tables only) turns each word into a document; the parser must read every one of them (C09).          *)
EXTENDS SchemaDerived, Report
CONSTANT Types
VARIABLES t, w
Init == t \in Types /\ w \in EdgeCoverWords(CM[t]) \cup (IF CM[t].nullable THEN {<<>>} ELSE {})
Next == UNCHANGED <<t, w>>
Spec == Init /\ [][Next]_<<t, w>>
Emit == Report([type |-> t, word |-> w])
====
