---- MODULE DocumentGen ----
(* GEN for documents: for every element-content type, one shortest valid child word through every follow edge *)
(* of its automaton (EdgeCover), every cycle taken twice (Pump), every valid word up to a small length for small *)
(* alphabets, plus the shortest valid word.  The document builder (harness/schemadoc.py,     *)
(* schema tables only) turns each word into a document; the parser must read every one of them (C09).          *)
EXTENDS SchemaDerived, Report
CONSTANTS Types, SmallAlphabet, SmallLen   \* types with at most SmallAlphabet child names also get every valid word up to SmallLen
VARIABLES t, w
WordsFor(ty) == EdgeCoverWords(CM[ty]) \cup {x \in PumpWords(CM[ty]) : Len(x) <= 8} \cup (IF CM[ty].nullable THEN {<<>>} ELSE {})
                 \cup (IF Len(Alphabet[ty]) <= SmallAlphabet THEN WordsUpTo(CM[ty], SmallLen) ELSE {})
Init == t \in Types /\ w \in WordsFor(t)
Next == UNCHANGED <<t, w>>
Spec == Init /\ [][Next]_<<t, w>>
Emit == Report([type |-> t, word |-> w])
====
