---- MODULE WriterTrace ----
(***************************************************************************)
(* TV for C17: every recorded write() / import / parse under every default  *)
(* text encoding is judged.  Decisive clauses are on observable outcomes    *)
(* (bytes of the destination before / after, raised or returned); the       *)
(* recorded effect order is compared with the Writer design that TLC        *)
(* verified and reported as DRIFT, which is not an alarm: a different        *)
(* correct protocol (temp file + rename) must not be rejected.              *)
(***************************************************************************)
EXTENDS WriterEffects, Element, Report, IOUtils

Trace == ndJsonDeserialize(IOEnv.TRACE_FILE)

\* e.before / e.after: "absent", "dir" or the sha-256 of the bytes; e.expect: sha-256 of
\* Utf8(declaration \o to_string()) computed independently, "" when to_string() raises
WriteClauses(e) ==
  LET ante == [C17_aon |-> ~e.res.ok, C17_declared |-> e.res.ok, C17_mustfail |-> e.fail # 0 \/ e.prior = "isdir",
               C17_mustwork |-> e.fail = 0 /\ e.prior # "isdir", C19_class |-> ~e.res.ok, C19_quiet |-> TRUE]
  IN [ante |-> ante, holds |-> [
   C17_aon      |-> ante.C17_aon => e.after = e.before,
   C17_declared |-> ante.C17_declared => (e.expect # "" /\ e.after = e.expect),
   C17_mustfail |-> ante.C17_mustfail => ~e.res.ok,           \* an incomplete document / an unopenable path is refused
   C17_mustwork |-> ante.C17_mustwork => e.res.ok,
   C19_class    |-> ante.C19_class => (Documented(e.res, FALSE) \/ "OSError" \in Range(e.res.mro)),
   C19_quiet    |-> Quiet(e.res) ]]

\* locale independence: the same call under another default encoding observes the same things as under UTF-8
LocaleClauses(e) ==
  LET ante == [C17_locale |-> e.twloc # 0]
  IN [ante |-> ante, holds |-> [
   C17_locale |-> ante.C17_locale => LET f == Trace[e.twloc] IN
                     e.res.ok = f.res.ok /\ e.res.exc = f.res.exc /\ e.after = f.after /\ e.text = f.text ]]

OtherClauses(e) ==   \* import of the package, parse of a UTF-8 file with non-ASCII text, to_string
  [ante |-> [C17_runs |-> TRUE, C19_quiet |-> TRUE], holds |-> [C17_runs |-> e.res.ok, C19_quiet |-> Quiet(e.res)]]

SerFault == 11     \* the fault scenario in which every check passes but producing the text raises
Drift(e) == e.op = "write" /\ e.effects # EffectsOf("validate-first", e.fail # 0 /\ e.fail # SerFault, e.fail = SerFault, e.prior = "isdir")

AllClauses == {"C17_aon", "C17_declared", "C17_mustfail", "C17_mustwork", "C17_locale", "C17_runs", "C19_class", "C19_quiet"}
VARIABLES i, cnt
Init == i = 1 /\ cnt = [n \in AllClauses |-> 0]
Next == /\ i <= Len(Trace)
        /\ LET e == Trace[i]
               sc == IF e.op = "write" THEN WriteClauses(e) ELSE OtherClauses(e)
               lc == LocaleClauses(e)
               v == Failing(sc) \cup Failing(lc)
               x == Exercised(sc) \cup Exercised(lc)
           IN /\ (IF v = {} THEN TRUE ELSE Report(<<"V", i, v>>))
              /\ (IF Drift(e) THEN Report(<<"DRIFT", i, e.effects>>) ELSE TRUE)
              /\ cnt' = [n \in AllClauses |-> cnt[n] + (IF n \in x THEN 1 ELSE 0)]
        /\ i' = i + 1
Spec == Init /\ [][Next]_<<i, cnt>>
Done == (i = Len(Trace) + 1) => Report(<<"DONE", Len(Trace), cnt>>)
====
