SPECIFICATION Spec
CONSTANT Types <- MCTypes
CONSTANT FreeLen = 2
CONSTANT ViaLenOf <- MCViaLen
INVARIANT SameLanguage
INVARIANT SameExt
INVARIANT SameAlphabet
CHECK_DEADLOCK FALSE
