---- MODULE Translation ----
(***************************************************************************)
(* C03: every element class is a faithful translation of its declaration.  *)
(*                                                                         *)
(* Schema side: module Schema (generated from the pinned XSD).             *)
(* Library side: module Impl (projected from the imported working tree).   *)
(*                                                                         *)
(* Language part: the reachable part of the on-the-fly determinised        *)
(* product of CM[t] and the automaton compiled from the library's own      *)
(* template for t.  The product is finite; exhausting it is a complete     *)
(* decision of language equivalence.  Table part: finite equalities.       *)
(* Every disagreement is *printed* (one tuple per disagreement) rather     *)
(* than stopping the run, so that the verdict is total.                    *)
(***************************************************************************)
EXTENDS Regular, Schema, Impl, Report, FiniteSets

VARIABLES t, sa, sb, w
vars == <<t, sa, sb, w>>

TClass(ty) == RuleComplex[ty]
HasImpl(ty) == TClass(ty) \in DOMAIN ImplCM
A == CM[t]
B == ImplCM[TClass(t)]
Sigma == {A.lab[p] : p \in Pos(A)} \cup {B.lab[p] : p \in Pos(B)}

AccA == IF w = <<>> THEN A.nullable ELSE sa \cap A.last # {}
AccB == IF w = <<>> THEN B.nullable ELSE sb \cap B.last # {}

Init == /\ t \in {ty \in CMTypes : HasImpl(ty)}
        /\ sa = {} /\ sb = {} /\ w = <<>>
Next == \E a \in Sigma :
          LET na == IF w = <<>> THEN Start(A, a) ELSE Step(A, sa, a)
              nb == IF w = <<>> THEN Start(B, a) ELSE Step(B, sb, a)
          IN /\ (na # {} \/ nb # {})
             /\ sa' = na /\ sb' = nb /\ w' = Append(w, a) /\ UNCHANGED t
Spec == Init /\ [][Next]_vars
View == <<t, sa, sb, w = <<>> >>

\* ---- verdicts (printed; the invariants themselves never fail) -------------
LangJudge == (AccA # AccB) => Report(<<"C03", "language", t, w, AccA, AccB>>)

Expected(ty) == {[name |-> d.name, type |-> RuleSimple[d.type], req |-> d.req] : d \in AttrDecl[ty]}
Got(ty) == IF TClass(ty) \in DOMAIN ImplAttr THEN ImplAttr[TClass(ty)] ELSE {[name |-> "!missing", type |-> "!", req |-> FALSE]}

TableFindings ==
     {<<"C03", "schema-file", ImplSchemaSha>> : x \in {1} \cap (IF ImplSchemaSha = SchemaSha THEN {} ELSE {1})}
  \cup {<<"C03", "class-missing", n>> : n \in {m \in ElemNames : RuleElem[m] \notin DOMAIN ImplClass}}
  \cup {<<"C03", "class-collision", n>> : n \in {m \in ElemNames : \E o \in ElemNames : o # m /\ RuleElem[o] = RuleElem[m]}}
  \cup {<<"C03", "class-name", n>> : n \in {m \in ElemNames : RuleElem[m] \in DOMAIN ImplClass /\ ImplClass[RuleElem[m]].name # m}}
  \cup {<<"C03", "class-type", n, ImplClass[RuleElem[n]].type>> :
            n \in {m \in ElemNames : RuleElem[m] \in DOMAIN ImplClass /\
                     ImplClass[RuleElem[m]].type # (IF ElemKind[m] = "complex" THEN RuleComplex[ElemType[m]] ELSE RuleSimple[ElemType[m]])}}
  \cup {<<"C03", "class-extra", c>> : c \in {d \in DOMAIN ImplClass : ~\E n \in ElemNames : RuleElem[n] = d}}
  \cup {<<"C03", "template-missing", ty>> : ty \in {u \in CMTypes : ~HasImpl(u)}}
  \cup {<<"C03", "template-extra", c>> : c \in {d \in DOMAIN ImplCM : ~\E ty \in CMTypes : TClass(ty) = d}}
  \cup UNION {{<<"C03", "attr-missing", ty, r.name, r.type, r.req>> : r \in Expected(ty) \ Got(ty)} : ty \in ComplexTypes}
  \cup UNION {{<<"C03", "attr-extra", ty, r.name, r.type, r.req>> : r \in Got(ty) \ Expected(ty)} : ty \in ComplexTypes}
  \cup {<<"C03", "simple-content", ty, ImplSimpleBase[TClass(ty)]>> :
            ty \in {u \in ComplexTypes : TClass(u) \in DOMAIN ImplSimpleBase /\
                      ImplSimpleBase[TClass(u)] # (IF SimpleBase[u] = "" THEN "" ELSE RuleSimple[SimpleBase[u]])}}
  \cup {<<"C03", "simple-missing", s>> : s \in {u \in DeclaredSimple : RuleSimple[u] \notin DOMAIN ImplST}}
  \cup {<<"C03", "simple-decl", s>> : s \in {u \in DeclaredSimple : RuleSimple[u] \in DOMAIN ImplST /\
            LET d == STDecl[u]  i == ImplST[RuleSimple[u]]
            IN ~(i.base = d.base /\ i.enum = d.enum /\ i.pats = d.pats /\ i.facets = d.facets /\ i.members = d.members)}}

\* evaluated once, in the first initial state TLC builds (t is the CHOOSE-minimal type)
TableJudge == (w = <<>> /\ t = CHOOSE ty \in {u \in CMTypes : HasImpl(u)} : TRUE) => ReportAll(TableFindings)
====
