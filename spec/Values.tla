---- MODULE Values ----
(***************************************************************************)
(* One element's attribute map and text value: the reference semantics of  *)
(* attribute assignment (constructor keyword / dot assignment), value       *)
(* assignment and the attribute/text part of to_string, as labelled         *)
(* clauses over Schema's AttrDecl / ST tables and Lexical's InLex.          *)
(*                                                                         *)
(* A value token tok == [kind, s]: kind in {"str","int","float","special",  *)
(* "none"}; s = the code points of the offered string, or of Python's       *)
(* str(value) for numbers ("True", "nan", "inf", "1e-05" for specials).     *)
(* Stored state: attrs = sorted sequence of <<xml-name, repr>> pairs.       *)
(***************************************************************************)
EXTENDS Lexical, Element

Declared(ct, name) == ct \in DOMAIN AttrDecl /\ \E d \in AttrDecl[ct] : d.name = name
DeclOf(ct, name) == CHOOSE d \in AttrDecl[ct] : d.name = name
RequiredNames(ct) == IF ct \in DOMAIN AttrDecl THEN {d.name : d \in {x \in AttrDecl[ct] : x.req}} ELSE {}

\* the token is a value of simple type tn "offered in its normalised lexical form":
\* strings for the string-like leaves, Python numbers for the numeric leaves
RECURSIVE ValidOffer(_, _)
ValidOffer(tn, tok) ==
  LET d == ST[tn] IN
  IF d.union # <<>> THEN \E i \in DOMAIN d.union : ValidOffer(d.union[i], tok)
  ELSE IF d.prim = "decimal"
       THEN /\ tok.kind \in (IF d.int THEN {"int"} ELSE {"int", "float"})
            /\ InLex(tn, tok.s)
       ELSE tok.kind = "str" /\ InLex(tn, tok.s) /\ IsNormalized(tn, tok.s)

NamesOf(attrs) == {attrs[i][1] : i \in DOMAIN attrs}
Lookup(attrs, n) == LET i == CHOOSE j \in DOMAIN attrs : attrs[j][1] = n IN attrs[i][2]
MinusName(attrs, n) == SelectSeq(attrs, LAMBDA p : p[1] # n)
SameExcept(a, b, n) == MinusName(a, n) = MinusName(b, n)

\* =========================== attribute assignment ==========================
\* ct: complex type of the element ("" for a simple-typed element, which has no attributes)
SetAttrClauses(ct, name, tok, r, s, s2) ==
  LET decl == Declared(ct, name)
      ante == [
        C04_decl     |-> r.ok,
        C04_value    |-> r.ok /\ decl /\ tok.kind \in {"str", "int", "special"},
        C05_complete |-> decl /\ ValidOffer(DeclOf(ct, name).type, tok),
        C04_store    |-> r.ok,
        C10_frame    |-> ~r.ok,
        C19_class    |-> ~r.ok,
        C19_quiet    |-> TRUE ]
  IN [ante |-> ante, holds |-> [
   C04_decl     |-> ante.C04_decl => decl,                         \* only declared attributes are accepted
   \* an accepted string / int / bool / non-finite value has a text (str(value)) that is valid for the type; floats
   \* are judged on what is emitted (C05_sound), their repr may legitimately use exponent notation
   C04_value    |-> ante.C04_value => InLex(DeclOf(ct, name).type, tok.s),
   C05_complete |-> ante.C05_complete => r.ok,                      \* valid normalised offers are accepted
   C04_store    |-> ante.C04_store => (name \in NamesOf(s2.attrs) /\ SameExcept(s.attrs, s2.attrs, name) /\ s2.val = s.val),
   C10_frame    |-> ante.C10_frame => (s2.attrs = s.attrs /\ s2.val = s.val),
   C19_class    |-> ante.C19_class => Documented(r, TRUE),
   C19_quiet    |-> Quiet(r) ]]

UnsetClauses(ct, name, r, s, s2) ==
  LET ante == [C04_unset |-> Declared(ct, name), C19_class |-> ~r.ok, C19_quiet |-> TRUE]
  IN [ante |-> ante, holds |-> [
   C04_unset |-> ante.C04_unset => (r.ok /\ s2.attrs = MinusName(s.attrs, name) /\ s2.val = s.val),
   C19_class |-> ante.C19_class => Documented(r, TRUE),
   C19_quiet |-> Quiet(r) ]]

\* =========================== value assignment ===============================
\* st: simple type of the text ("" if the type allows no text); ht: HasText of the type
SetValClauses(st, ht, tok, r, s, s2) ==
  LET empty == tok.kind = "none" \/ (tok.kind = "str" /\ tok.s = <<>>)
      ante == [
        C05_complete |-> st # "" /\ ValidOffer(st, tok),
        C05_value    |-> r.ok /\ st # "" /\ tok.kind = "str",
        C05_notext   |-> ht \in {"empty", "elements"} /\ ~empty,
        C10_frame    |-> ~r.ok,
        C19_class    |-> ~r.ok,
        C19_quiet    |-> TRUE ]
  IN [ante |-> ante, holds |-> [
   C05_complete |-> ante.C05_complete => r.ok,
   C05_value    |-> ante.C05_value => InLex(st, tok.s),
   C05_notext   |-> ante.C05_notext => ~r.ok,                    \* no character content on empty / element-only types
   C10_frame    |-> ante.C10_frame => (s2.attrs = s.attrs /\ s2.val = s.val),
   C19_class    |-> ante.C19_class => Documented(r, FALSE),
   C19_quiet    |-> Quiet(r) ]]

\* =========================== to_string (attribute / text part) ===============
\* em == [attrs |-> sequence of <<name, code points>> as a standard XML parser reads the output,
\*        text |-> code points of the element's own text]
\* complete: the element was given every required child, so only attributes / value can be missing
\* expect == [attrs |-> <<name, code points>> of every stored *string* value, hasText, text]: what the element holds
ToStringValClauses(ct, st, ht, complete, r, s, s2, em, expect) ==
  LET missing == RequiredNames(ct) \ NamesOf(s.attrs)
      ante == [
        C04_required |-> complete,
        C04_names    |-> r.ok,
        C05_sound    |-> r.ok,
        C05_notext   |-> r.ok /\ ht \in {"empty", "elements"},
        C16_pure     |-> TRUE,
        C16_wf       |-> r.ok,
        C19_class    |-> ~r.ok,
        C19_quiet    |-> TRUE ]
  IN [ante |-> ante, holds |-> [
   \* a standard XML parser recovers exactly the stored strings from the output
   C16_wf       |-> ante.C16_wf => /\ \A i \in DOMAIN expect.attrs :
                                          \E j \in DOMAIN em.attrs : em.attrs[j][1] \in {expect.attrs[i][1], "xml:" \o expect.attrs[i][1]}
                                                                     /\ em.attrs[j][2] = expect.attrs[i][2]
                                   /\ (expect.hasText => em.text = expect.text),
   C04_required |-> ante.C04_required => (r.ok <=> missing = {}),
   C04_names    |-> ante.C04_names => /\ NamesOf(em.attrs) = NamesOf(s.attrs)
                                      /\ \A n \in NamesOf(em.attrs) : Declared(ct, n),
   C05_sound    |-> ante.C05_sound => /\ \A i \in DOMAIN em.attrs : Declared(ct, em.attrs[i][1]) =>
                                             InLex(DeclOf(ct, em.attrs[i][1]).type, em.attrs[i][2])
                                      /\ (st # "" => InLex(st, em.text)),
   C05_notext   |-> ante.C05_notext => \A i \in DOMAIN em.text : IsWS(em.text[i]),
   C16_pure     |-> s2.attrs = s.attrs /\ s2.val = s.val,
   C19_class    |-> ante.C19_class => Documented(r, FALSE),
   C19_quiet    |-> Quiet(r) ]]

\* =========================== reading an attribute ============================
\* got: "none" | "value" | "error"
GetClauses(ct, name, present, got, r) ==
  LET ante == [C15_read |-> Declared(ct, name), C19_quiet |-> TRUE]
  IN [ante |-> ante, holds |-> [
   C15_read |-> ante.C15_read => (r.ok /\ got = (IF present THEN "value" ELSE "none")),
   C19_quiet |-> Quiet(r) ]]
====
