---- MODULE ValuesTrace ----
(***************************************************************************)
(* TV for attribute / value steps recorded by harness/replay_values.py:     *)
(* every step is judged against the clauses of Values.tla; verdict total.   *)
(***************************************************************************)
EXTENDS Values, Report, IOUtils

Trace == ndJsonDeserialize(IOEnv.TRACE_FILE)

Continuous(e) == e.parent = 0 \/ Trace[e.parent].post = e.pre

StepClauses(e) ==
  CASE e.op = "setattr"  -> SetAttrClauses(e.ctype, e.name, e.tok, e.res, e.pre, e.post)
    [] e.op = "unset"    -> UnsetClauses(e.ctype, e.name, e.res, e.pre, e.post)
    [] e.op = "setval"   -> SetValClauses(e.stype, e.ht, e.tok, e.res, e.pre, e.post)
    [] e.op = "tostring" -> ToStringValClauses(e.ctype, e.stype, e.ht, e.complete, e.res, e.pre, e.post, e.em, e.expect)
    [] e.op = "get"      -> GetClauses(e.ctype, e.name, e.present, e.got, e.res)
    [] e.op = "new"      -> [ante |-> [C19_quiet |-> TRUE], holds |-> [C19_quiet |-> Quiet(e.res)]]

\* shortcut surfaces agree: both succeed with the same stored state, or both fail (the dot surface
\* documents AttributeError where the keyword surface raises XSDWrongAttribute, so classes are not compared)
TwinClauses(e) ==
  LET ante == [C15_same |-> e.tw15 # 0,
               C16_kept |-> e.op = "setattr" /\ e.surface = "dot" /\ e.res.ok /\ e.tok.kind = "str" /\ e.stored.isstr]
  IN [ante |-> ante, holds |-> [
   \* an accepted string is held as offered -- it is that string a parser must recover from the output (C16_wf compares
   \* the output with what is held)
   C16_kept |-> ante.C16_kept => e.stored.s = e.tok.s,
   C15_same |-> ante.C15_same => LET f == Trace[e.tw15] IN
                   /\ e.res.ok = f.res.ok
                   /\ (e.res.ok => (e.post.attrs = f.post.attrs /\ e.post.val = f.post.val)) ]]

AllClauses == {"C04_decl", "C04_value", "C04_store", "C04_unset", "C04_required", "C04_names", "C05_complete", "C05_value",
               "C05_sound", "C05_notext", "C10_frame", "C15_read", "C15_same", "C16_pure", "C16_wf", "C16_kept", "C19_class", "C19_quiet"}

VARIABLES i, cnt
Init == i = 1 /\ cnt = [n \in AllClauses |-> 0]
Next == /\ i <= Len(Trace)
        /\ LET e == Trace[i] IN
           /\ IF Continuous(e) THEN TRUE ELSE Report(<<"BROKEN", i>>)
           /\ LET sc == StepClauses(e)  tc == TwinClauses(e)
                  v == Failing(sc) \cup Failing(tc)
                  x == Exercised(sc) \cup Exercised(tc)
              IN /\ (IF v = {} THEN TRUE ELSE Report(<<"V", i, v>>))
                 /\ cnt' = [n \in AllClauses |-> cnt[n] + (IF n \in x THEN 1 ELSE 0)]
        /\ i' = i + 1
Spec == Init /\ [][Next]_<<i, cnt>>
Done == (i = Len(Trace) + 1) => Report(<<"DONE", Len(Trace), cnt>>)
====
