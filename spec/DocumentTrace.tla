---- MODULE DocumentTrace ----
(***************************************************************************)
(* TV for document-level executions recorded by harness/replay_doc.py.      *)
(*   trip      C08: the library's own output re-parses to the same document *)
(*   parse     C09: schema-valid input is read without loss; nothing is     *)
(*                  silently dropped from any input                         *)
(*   deepcopy  C14: faithful, leaves the original unchanged                  *)
(*   mutate    C14: copy and original are independent                        *)
(***************************************************************************)
EXTENDS Document, Element, SchemaDerived, Report, IOUtils

Trace == ndJsonDeserialize(IOEnv.TRACE_FILE)

\* tails: character data between children is content too
RECURSIVE EquivZ(_, _)
EquivZ(x, y) ==
  /\ x.n = y.n
  /\ AttrNames(x) = AttrNames(y)
  /\ \A a \in AttrNames(x) : SameValue(AttrTypeOf(x.n, a), AttrVal(x, a), AttrVal(y, a))
  /\ (IF ElementOnly(x.n) THEN (AllWS(x.t) <=> AllWS(y.t)) /\ (~AllWS(x.t) => x.t = y.t)
      ELSE SameValue(TextType(x.n), x.t, y.t))
  /\ Len(x.c) = Len(y.c)
  /\ \A i \in DOMAIN x.c : EquivZ(x.c[i], y.c[i]) /\ ((AllWS(x.c[i].z) /\ AllWS(y.c[i].z)) \/ x.c[i].z = y.c[i].z)

\* nothing of x is missing from or altered in y; the parser may re-order children into schema order
\* (matching is greedy: EquivZ-equal children are interchangeable, so the first match is as good as any)
RECURSIVE NoLoss(_, _), MatchKids(_, _)
MatchKids(xs, ys) ==
  IF xs = <<>> THEN TRUE
  ELSE LET cand == {j \in DOMAIN ys : NoLoss(xs[1], ys[j])}
       IN cand # {} /\ LET j == CHOOSE k \in cand : \A m \in cand : k <= m
                       IN MatchKids(Tail(xs), [k \in 1..(Len(ys) - 1) |-> IF k < j THEN ys[k] ELSE ys[k + 1]])
NoLoss(x, y) ==
  /\ x.n = y.n
  /\ AttrNames(x) \subseteq AttrNames(y)
  /\ \A a \in AttrNames(x) : SameValue(AttrTypeOf(x.n, a), AttrVal(x, a), AttrVal(y, a))
  /\ (IF ElementOnly(x.n) THEN (~AllWS(x.t) => x.t = y.t) ELSE SameValue(TextType(x.n), x.t, y.t))
  /\ \A i \in DOMAIN x.c : AllWS(x.c[i].z) \/ \E j \in DOMAIN y.c : y.c[j].z = x.c[i].z
  /\ MatchKids(x.c, y.c)

\* C01 on whole documents: in what a checked tree serialises to, the child sequence of EVERY element is a word of its
\* content model (elements without element content have no children)
ChildNames(x) == [i \in DOMAIN x.c |-> x.c[i].n]
RECURSIVE ValidTree(_)
ValidTree(x) ==
  /\ (IF Known(x.n) /\ IsComplex(x.n) /\ ElemType[x.n] \in CMTypes THEN Accepts(CM[ElemType[x.n]], ChildNames(x)) ELSE x.c = <<>>)
  /\ \A i \in DOMAIN x.c : ValidTree(x.c[i])

\* C18 on mixed trees (recorded by the 'mixed' scenarios):
\*   unchecked-root: an xsd_check=False root holding a checked, INCOMPLETE child and a child the schema does not allow:
\*       the root serialises (rootok) with its children in insertion order; the checked child still refuses its own
\*       to_string (ownok = FALSE) and still rejects an invalid child (addok = FALSE)
\*   unchecked-inner: a checked, complete root holding an unchecked child that carries arbitrary children:
\*       the root serialises; the unchecked child is exempt and accepts anything (addok = TRUE)
\*   unchecked-inner-noattr: the same tree, the unchecked child built WITHOUT its required attributes: the exemption is the
\*       element's own, so what it serialises alone (ownok) the checked tree around it serialises as well
MixedClauses(e) ==
  LET ante == [C18_local |-> TRUE, C19_quiet |-> TRUE]
  IN [ante |-> ante, holds |-> [
   C18_local |-> IF e.variant = "unchecked-root"
                 THEN e.rootok /\ e.rooticok /\ ~e.ownok /\ ~e.addok /\ e.outw = e.insw
                 ELSE IF e.variant = "unchecked-inner-noattr"
                 \* the unchecked child lacks its required attributes: if it serialises alone, the checked tree around it does too
                 THEN e.ownok => (e.rootok /\ e.rooticok)
                 ELSE e.rootok /\ e.rooticok /\ e.addok /\ e.outw = e.insw,    \* rooticok: to_string(intelligent_choice=True) of the root
   C19_quiet |-> Quiet(e.res) ]]

TripClauses(e) ==
  LET ante == [C01_nested |-> TRUE, C08_reparse |-> TRUE, C08_trip |-> e.res2.ok, C08_stable |-> e.res2.ok, C19_quiet |-> TRUE]
  IN [ante |-> ante, holds |-> [
   C01_nested  |-> ValidTree(e.inp),                               \* every element of the emitted document is schema-valid
   C08_reparse |-> e.res2.ok,                                     \* what the library emitted is read back
   C08_trip    |-> ante.C08_trip => Equiv(e.inp, e.outp),          \* same elements, order, attributes, text (decimal spelling aside)
   C08_stable  |-> ante.C08_stable => (e.res3.ok /\ e.same23),     \* the second round trip is byte-identical
   C19_quiet   |-> Quiet(e.res) /\ Quiet(e.res2) /\ Quiet(e.res3) ]]

ParseClauses(e) ==
  LET ante == [C09_accept |-> e.kind = "valid", C09_trip |-> e.kind = "valid" /\ e.res.ok,
               C09_noloss |-> e.kind = "mutant" /\ e.res.ok, C19_quiet |-> TRUE]
  IN [ante |-> ante, holds |-> [
   C09_accept |-> ante.C09_accept => e.res.ok,
   C09_trip   |-> ante.C09_trip => EquivZ(e.inp, e.outp),
   C09_noloss |-> ante.C09_noloss => NoLoss(e.inp, e.outp),       \* either the parser raises or nothing is lost
   \* which exception class the parser uses for input it refuses is not constrained by C19 (that property is about
   \* add_child / to_string / constructors); only that it stays quiet
   C19_quiet  |-> Quiet(e.res) ]]

CopyClauses(e) ==
  LET ante == [C14_copies |-> TRUE, C14_faithful |-> e.res.ok, C14_unchanged |-> TRUE, C19_class |-> ~e.res.ok, C19_quiet |-> TRUE]
  IN [ante |-> ante, holds |-> [
   C14_copies    |-> e.res.ok,
   C14_faithful  |-> ante.C14_faithful => (e.t2 = e.t0 /\ e.chk1 = e.chk0),
   C14_unchanged |-> e.t1 = e.t0 /\ e.a1 = e.a0,
   C19_class     |-> ante.C19_class => Documented(e.res, FALSE),
   C19_quiet     |-> Quiet(e.res) ]]

MutateClauses(e) ==
  [ante |-> [C14_frame |-> TRUE, C19_quiet |-> TRUE], holds |-> [C14_frame |-> e.t1 = e.t0, C19_quiet |-> Quiet(e.res)]]

\* C16: every child subtree reads the same inside the parent's output as serialised alone (indentation aside)
RECURSIVE SameSubtree(_, _)
SameSubtree(x, y) ==
  /\ x.n = y.n /\ x.a = y.a
  /\ (IF AllWS(x.t) /\ AllWS(y.t) THEN TRUE ELSE x.t = y.t)
  /\ Len(x.c) = Len(y.c) /\ \A i \in DOMAIN x.c : SameSubtree(x.c[i], y.c[i])
NestedClauses(e) ==
  LET ante == [C16_subtree |-> e.res.ok, C19_quiet |-> TRUE]
  IN [ante |-> ante, holds |-> [
   C16_subtree |-> ante.C16_subtree => (Len(e.inside) = Len(e.alone) /\ \A i \in DOMAIN e.inside : SameSubtree(e.inside[i], e.alone[i])),
   C19_quiet   |-> Quiet(e.res) ]]

StepClauses(e) == CASE e.op = "nested" -> NestedClauses(e) [] e.op = "mixed" -> MixedClauses(e) [] e.op = "trip" -> TripClauses(e) [] e.op = "parse" -> ParseClauses(e)
                    [] e.op = "deepcopy" -> CopyClauses(e) [] e.op = "mutate" -> MutateClauses(e)

AllClauses == {"C01_nested", "C18_local", "C08_reparse", "C08_trip", "C08_stable", "C09_accept", "C09_trip", "C09_noloss", "C14_copies", "C14_faithful",
               "C14_unchanged", "C14_frame", "C16_subtree", "C19_class", "C19_quiet"}
VARIABLES i, cnt
Init == i = 1 /\ cnt = [n \in AllClauses |-> 0]
Next == /\ i <= Len(Trace)
        /\ LET sc == StepClauses(Trace[i])  v == Failing(sc)  x == Exercised(sc)
           IN /\ (IF v = {} THEN TRUE ELSE Report(<<"V", i, v>>))
              /\ cnt' = [n \in AllClauses |-> cnt[n] + (IF n \in x THEN 1 ELSE 0)]
        /\ i' = i + 1
Spec == Init /\ [][Next]_<<i, cnt>>
Done == (i = Len(Trace) + 1) => Report(<<"DONE", Len(Trace), cnt>>)
====
