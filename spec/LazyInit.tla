---- MODULE LazyInit ----
(***************************************************************************)
(* C20: lazily initialised class-level tables (get_xsd_attributes of the   *)
(* complex types and attribute groups) used from several threads.          *)
(*                                                                         *)
(* Cells = the classes owning a table.  Items[c] is the declaration of c:   *)
(* a sequence of literals (attributes) and references to other cells        *)
(* (attribute groups, complexContent bases), resolved recursively.          *)
(* Full[c] is the flattened table -- what an atomic cache (AtomicCache)      *)
(* returns in one step.  Design:                                            *)
(*   "publish-then-fill"  cell := <<>> is stored in the shared slot first   *)
(*                        and appended to in place (the code before repair) *)
(*   "build-then-publish" the list is built locally and stored when complete*)
(* Property: every call returns Full[c] (refinement of AtomicCache: the      *)
(* atomic spec's answers do not depend on the interleaving).                *)
(***************************************************************************)
EXTENDS Naturals, Sequences, TLC

CONSTANTS Threads, Design, Cells, Items, Goal
\* Items[c] : sequence of records [lit |-> n] or [ref |-> cell]; Goal[t] : the cell thread t asks for

IsRef(x) == "ref" \in DOMAIN x
RECURSIVE FullOf(_)
FullOf(x) == LET RECURSIVE Flat(_, _)
                 Flat(i, acc) == IF i > Len(Items[x]) THEN acc
                                 ELSE Flat(i + 1, IF IsRef(Items[x][i]) THEN acc \o FullOf(Items[x][i].ref)
                                                  ELSE Append(acc, Items[x][i].lit))
             IN Flat(1, <<>>)
Unset == <<0>>      \* literals are >= 1

(* --algorithm lazy
variables slot = [x \in Cells |-> Unset],
          rets = [t \in Threads |-> <<>>],                 \* return register of each thread                 \* the shared class-level attribute of every cell
          answer = [t \in Threads |-> Unset];             \* what the outermost call of thread t returned

procedure Get(cl)
  variables k = 1, loc = <<>>, r = <<>>;
begin
Test:   if slot[cl] # Unset then
          rets[self] := slot[cl];
          return;
        end if;
Pub:    if Design = "publish-then-fill" then slot[cl] := <<>>; end if;
Fill:   while k <= Len(Items[cl]) do
          if IsRef(Items[cl][k]) then
            call Get(Items[cl][k].ref);
Ext:        if Design = "publish-then-fill" then slot[cl] := slot[cl] \o rets[self]; else loc := loc \o rets[self]; end if;
          else
            if Design = "publish-then-fill" then slot[cl] := Append(slot[cl], Items[cl][k].lit);
            else loc := Append(loc, Items[cl][k].lit); end if;
          end if;
Inc:      k := k + 1;
        end while;
Pub2:   if Design # "publish-then-fill" then slot[cl] := loc; end if;
Ret:    rets[self] := slot[cl];
        return;
end procedure

process thr \in Threads
begin
Call:  call Get(Goal[self]);
Done_: answer[self] := rets[self];
end process
end algorithm *)
\* BEGIN TRANSLATION (chksum(pcal) = "ac7ce904" /\ chksum(tla) = "6cdfbf7")
CONSTANT defaultInitValue
VARIABLES pc, slot, rets, answer, stack, cl, k, loc, r

vars == << pc, slot, rets, answer, stack, cl, k, loc, r >>

ProcSet == (Threads)

Init == (* Global variables *)
        /\ slot = [x \in Cells |-> Unset]
        /\ rets = [t \in Threads |-> <<>>]
        /\ answer = [t \in Threads |-> Unset]
        (* Procedure Get *)
        /\ cl = [ self \in ProcSet |-> defaultInitValue]
        /\ k = [ self \in ProcSet |-> 1]
        /\ loc = [ self \in ProcSet |-> <<>>]
        /\ r = [ self \in ProcSet |-> <<>>]
        /\ stack = [self \in ProcSet |-> << >>]
        /\ pc = [self \in ProcSet |-> "Call"]

Test(self) == /\ pc[self] = "Test"
              /\ IF slot[cl[self]] # Unset
                    THEN /\ rets' = [rets EXCEPT ![self] = slot[cl[self]]]
                         /\ pc' = [pc EXCEPT ![self] = Head(stack[self]).pc]
                         /\ k' = [k EXCEPT ![self] = Head(stack[self]).k]
                         /\ loc' = [loc EXCEPT ![self] = Head(stack[self]).loc]
                         /\ r' = [r EXCEPT ![self] = Head(stack[self]).r]
                         /\ cl' = [cl EXCEPT ![self] = Head(stack[self]).cl]
                         /\ stack' = [stack EXCEPT ![self] = Tail(stack[self])]
                    ELSE /\ pc' = [pc EXCEPT ![self] = "Pub"]
                         /\ UNCHANGED << rets, stack, cl, k, loc, r >>
              /\ UNCHANGED << slot, answer >>

Pub(self) == /\ pc[self] = "Pub"
             /\ IF Design = "publish-then-fill"
                   THEN /\ slot' = [slot EXCEPT ![cl[self]] = <<>>]
                   ELSE /\ TRUE
                        /\ slot' = slot
             /\ pc' = [pc EXCEPT ![self] = "Fill"]
             /\ UNCHANGED << rets, answer, stack, cl, k, loc, r >>

Fill(self) == /\ pc[self] = "Fill"
              /\ IF k[self] <= Len(Items[cl[self]])
                    THEN /\ IF IsRef(Items[cl[self]][k[self]])
                               THEN /\ /\ cl' = [cl EXCEPT ![self] = Items[cl[self]][k[self]].ref]
                                       /\ stack' = [stack EXCEPT ![self] = << [ procedure |->  "Get",
                                                                                pc        |->  "Ext",
                                                                                k         |->  k[self],
                                                                                loc       |->  loc[self],
                                                                                r         |->  r[self],
                                                                                cl        |->  cl[self] ] >>
                                                                            \o stack[self]]
                                    /\ k' = [k EXCEPT ![self] = 1]
                                    /\ loc' = [loc EXCEPT ![self] = <<>>]
                                    /\ r' = [r EXCEPT ![self] = <<>>]
                                    /\ pc' = [pc EXCEPT ![self] = "Test"]
                                    /\ slot' = slot
                               ELSE /\ IF Design = "publish-then-fill"
                                          THEN /\ slot' = [slot EXCEPT ![cl[self]] = Append(slot[cl[self]], Items[cl[self]][k[self]].lit)]
                                               /\ loc' = loc
                                          ELSE /\ loc' = [loc EXCEPT ![self] = Append(loc[self], Items[cl[self]][k[self]].lit)]
                                               /\ slot' = slot
                                    /\ pc' = [pc EXCEPT ![self] = "Inc"]
                                    /\ UNCHANGED << stack, cl, k, r >>
                    ELSE /\ pc' = [pc EXCEPT ![self] = "Pub2"]
                         /\ UNCHANGED << slot, stack, cl, k, loc, r >>
              /\ UNCHANGED << rets, answer >>

Inc(self) == /\ pc[self] = "Inc"
             /\ k' = [k EXCEPT ![self] = k[self] + 1]
             /\ pc' = [pc EXCEPT ![self] = "Fill"]
             /\ UNCHANGED << slot, rets, answer, stack, cl, loc, r >>

Ext(self) == /\ pc[self] = "Ext"
             /\ IF Design = "publish-then-fill"
                   THEN /\ slot' = [slot EXCEPT ![cl[self]] = slot[cl[self]] \o rets[self]]
                        /\ loc' = loc
                   ELSE /\ loc' = [loc EXCEPT ![self] = loc[self] \o rets[self]]
                        /\ slot' = slot
             /\ pc' = [pc EXCEPT ![self] = "Inc"]
             /\ UNCHANGED << rets, answer, stack, cl, k, r >>

Pub2(self) == /\ pc[self] = "Pub2"
              /\ IF Design # "publish-then-fill"
                    THEN /\ slot' = [slot EXCEPT ![cl[self]] = loc[self]]
                    ELSE /\ TRUE
                         /\ slot' = slot
              /\ pc' = [pc EXCEPT ![self] = "Ret"]
              /\ UNCHANGED << rets, answer, stack, cl, k, loc, r >>

Ret(self) == /\ pc[self] = "Ret"
             /\ rets' = [rets EXCEPT ![self] = slot[cl[self]]]
             /\ pc' = [pc EXCEPT ![self] = Head(stack[self]).pc]
             /\ k' = [k EXCEPT ![self] = Head(stack[self]).k]
             /\ loc' = [loc EXCEPT ![self] = Head(stack[self]).loc]
             /\ r' = [r EXCEPT ![self] = Head(stack[self]).r]
             /\ cl' = [cl EXCEPT ![self] = Head(stack[self]).cl]
             /\ stack' = [stack EXCEPT ![self] = Tail(stack[self])]
             /\ UNCHANGED << slot, answer >>

Get(self) == Test(self) \/ Pub(self) \/ Fill(self) \/ Inc(self)
                \/ Ext(self) \/ Pub2(self) \/ Ret(self)

Call(self) == /\ pc[self] = "Call"
              /\ /\ cl' = [cl EXCEPT ![self] = Goal[self]]
                 /\ stack' = [stack EXCEPT ![self] = << [ procedure |->  "Get",
                                                          pc        |->  "Done_",
                                                          k         |->  k[self],
                                                          loc       |->  loc[self],
                                                          r         |->  r[self],
                                                          cl        |->  cl[self] ] >>
                                                      \o stack[self]]
              /\ k' = [k EXCEPT ![self] = 1]
              /\ loc' = [loc EXCEPT ![self] = <<>>]
              /\ r' = [r EXCEPT ![self] = <<>>]
              /\ pc' = [pc EXCEPT ![self] = "Test"]
              /\ UNCHANGED << slot, rets, answer >>

Done_(self) == /\ pc[self] = "Done_"
               /\ answer' = [answer EXCEPT ![self] = rets[self]]
               /\ pc' = [pc EXCEPT ![self] = "Done"]
               /\ UNCHANGED << slot, rets, stack, cl, k, loc, r >>

thr(self) == Call(self) \/ Done_(self)

(* Allow infinite stuttering to prevent deadlock on termination. *)
Terminating == /\ \A self \in ProcSet: pc[self] = "Done"
               /\ UNCHANGED vars

Next == (\E self \in ProcSet: Get(self))
           \/ (\E self \in Threads: thr(self))
           \/ Terminating

Spec == Init /\ [][Next]_vars

Termination == <>(\A self \in ProcSet: pc[self] = "Done")

\* END TRANSLATION 
 

\* ---- properties ------------------------------------------------------------
Finished(t) == pc[t] = "Done"
\* C20: every thread obtains exactly the table an atomic cache would return, whatever the interleaving
ReturnsFull == \A t \in Threads : Finished(t) => answer[t] = FullOf(Goal[t])
\* once a slot is published it never changes (what makes lock-free readers safe)
PublishedStable == [][\A x \in Cells : slot[x] # Unset => slot'[x] = slot[x]]_vars
\* a published slot is complete
PublishedComplete == \A x \in Cells : slot[x] # Unset => slot[x] = FullOf(x)
\* refinement: the answers of LazyInit, seen as a history, are a behaviour of the atomic cache
AC == INSTANCE AtomicCache WITH answered <- answer, Full <- FullOf
Refines == AC!Spec
====
