---- MODULE SchemaSelfCheck ----
(***************************************************************************)
(* Guards the generator: for every element-content type the Glushkov       *)
(* automaton CM[t] and a direct recursive semantics over the particle tree  *)
(* CMTree[t] accept the same words; and Ext (completability, computed on    *)
(* the automaton) equals "some permutation is accepted by the tree with     *)
(* every minOccurs relaxed to 0".  Two formulations, one parse.             *)
(***************************************************************************)
EXTENDS Regular, Schema, TLC
CONSTANTS Types,      \* set of type names to check
          FreeLen,    \* all words up to this length are states (viable or not)
          ViaLenOf    \* per type: automaton-viable prefixes are states up to this length

VARIABLES t, w
vars == <<t, w>>

\* ---- direct semantics of a particle tree: set of end positions -----------
RECURSIVE Ends(_,_,_,_), Once(_,_,_,_), SeqEnds(_,_,_,_,_), Rep(_,_,_,_,_,_)
\* relax = TRUE treats every lo as 0
Once(p, x, i, relax) ==
  IF p.k = "e" THEN (IF i <= Len(x) /\ x[i] = p.n THEN {i + 1} ELSE {})
  ELSE IF p.k = "s" THEN SeqEnds(p.ch, 1, x, {i}, relax)
  ELSE UNION {Ends(p.ch[c], x, i, relax) : c \in DOMAIN p.ch}
SeqEnds(ch, c, x, cur, relax) ==
  IF c > Len(ch) \/ cur = {} THEN cur
  ELSE SeqEnds(ch, c + 1, x, UNION {Ends(ch[c], x, j, relax) : j \in cur}, relax)
Rep(p, x, cur, n, acc, relax) ==
  LET lo == IF relax THEN 0 ELSE p.lo IN
  IF cur = {} \/ (p.hi # Unb /\ n >= p.hi) THEN acc
  ELSE LET nxt == UNION {Once(p, x, j, relax) : j \in cur}
           fresh == IF n + 1 >= lo THEN nxt \ acc ELSE nxt
       IN Rep(p, x, fresh, n + 1, IF n + 1 >= lo THEN acc \cup nxt ELSE acc, relax)
Ends(p, x, i, relax) ==
  LET lo == IF relax THEN 0 ELSE p.lo IN Rep(p, x, {i}, 0, IF lo = 0 THEN {i} ELSE {}, relax)

TreeAccepts(p, x) == (Len(x) + 1) \in Ends(p, x, 1, FALSE)
TreeAcceptsRelaxed(p, x) == (Len(x) + 1) \in Ends(p, x, 1, TRUE)

\* scattered subwords of L(p) = L(relaxed p); a bag is completable iff one of its orderings is one
Perms(x) == {f \in [DOMAIN x -> DOMAIN x] : \A i, j \in DOMAIN x : i # j => f[i] # f[j]}
TreeExt(p, x) == \E f \in Perms(x) : TreeAcceptsRelaxed(p, [i \in DOMAIN x |-> x[f[i]]])

A == CM[t]
Sigma == {Alphabet[t][i] : i \in DOMAIN Alphabet[t]}

Init == t \in Types /\ w = <<>>
Next == /\ Len(w) < ViaLenOf[t]
        /\ \E a \in Sigma : /\ (IF Len(w) < FreeLen THEN TRUE ELSE ViablePrefix(A, Append(w, a)))
                            /\ w' = Append(w, a)
        /\ UNCHANGED t
Spec == Init /\ [][Next]_vars

\* judged on the state's word and on every one-symbol extension of it (so rejected words
\* one step off every viable prefix are compared too, without becoming states)
SameLanguage == /\ Accepts(A, w) = TreeAccepts(CMTree[t], w)
                /\ \A a \in Sigma : Accepts(A, Append(w, a)) = TreeAccepts(CMTree[t], Append(w, a))
SameExt == Len(w) <= 4 => (ExtA(A, w) = TreeExt(CMTree[t], w))
\* labels of the automaton are exactly the alphabet of the tree
SameAlphabet == {A.lab[p] : p \in Pos(A)} = Sigma
\* vacuity guard evaluated by the harness from coverage: some accepted, some rejected
====
