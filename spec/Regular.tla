---- MODULE Regular ----
(***************************************************************************)
(* Regular-language reasoning over Glushkov position automata given as     *)
(* constants:  A == [lab, first, last, nullable, follow]  over positions   *)
(* 1..n.  Used for content models (labels = element names) and, through    *)
(* the Cls* variants, for xs:pattern automata (labels = code-point range   *)
(* lists, words = sequences of code points).                               *)
(***************************************************************************)
EXTENDS Naturals, Sequences, FiniteSets, TLC

Pos(A) == DOMAIN A.lab
Start(A, a) == {q \in A.first : A.lab[q] = a}
Step(A, S, a) == {q \in Pos(A) : A.lab[q] = a /\ \E p \in S : q \in A.follow[p]}

RECURSIVE Run(_,_,_,_)
Run(A, S, w, i) == IF i > Len(w) THEN S ELSE Run(A, Step(A, S, w[i]), w, i+1)

\* position set after reading w (w non-empty)
After(A, w) == Run(A, Start(A, w[1]), w, 2)

Accepts(A, w) == IF Len(w) = 0 THEN A.nullable ELSE After(A, w) \cap A.last # {}

\* w is a prefix of some word of L(A): every Glushkov position is co-reachable
ViablePrefix(A, w) == Len(w) = 0 \/ After(A, w) # {}

\* names that may follow the (viable) prefix w
NextSyms(A, w) == IF Len(w) = 0 THEN {A.lab[q] : q \in A.first}
                  ELSE {A.lab[q] : q \in UNION {A.follow[p] : p \in After(A, w)}}

\* ---------------------------------------------------------------------------
\* scattered subwords: "the children present can still be completed"
RECURSIVE ReachFrom(_,_,_)
ReachFrom(A, fr, seen) == LET nxt == UNION {A.follow[p] : p \in fr} \ seen
                          IN IF nxt = {} THEN seen ELSE ReachFrom(A, nxt, seen \cup nxt)
Plus(A) == [p \in Pos(A) |-> ReachFrom(A, {p}, {})]              \* reachable in >= 1 step
FirstDown(A) == A.first \cup UNION {ReachFrom(A, {p}, {}) : p \in A.first}

\* symmetry break: among equal names, use the lowest unused index first
Elig(w, used) == {j \in DOMAIN w \ used : \A k \in 1..(j-1) : w[k] = w[j] => k \in used}

\* Ext(A, P, FD, w): the bag of names in w can be ordered into a scattered
\* subword of a word of L(A).  P = Plus(A), FD = FirstDown(A) are passed in so
\* that callers can let TLC cache them per type.
Ext(A, P, FD, w) ==
  LET RECURSIVE Go(_)
      Go(fr) == IF fr = {} THEN FALSE
                ELSE IF \E x \in fr : x[2] = DOMAIN w THEN TRUE
                ELSE Go(UNION { UNION { {<<q, x[2] \cup {i}>> : q \in {r \in P[x[1]] : A.lab[r] = w[i]}}
                                        : i \in Elig(w, x[2]) } : x \in fr })
  IN IF Len(w) = 0 THEN TRUE
     ELSE Go(UNION { {<<q, {i}>> : q \in {r \in FD : A.lab[r] = w[i]}} : i \in Elig(w, {}) })

ExtA(A, w) == Ext(A, Plus(A), FirstDown(A), w)

\* ---------------------------------------------------------------------------
\* arrangements of a bag: the distinct accepted words that are permutations of w
\* search over <<position set, used indices, word so far>>
Arrangements(A, w) ==
  LET n == Len(w)
      RECURSIVE Go(_, _)
      Go(fr, k) == IF k = n THEN {x[3] : x \in {y \in fr : y[1] \cap A.last # {}}}
                   ELSE Go(UNION { { <<Step(A, x[1], w[i]), x[2] \cup {i}, Append(x[3], w[i])>>
                                       : i \in {j \in Elig(w, x[2]) : Step(A, x[1], w[j]) # {}} } : x \in fr }, k + 1)
  IN IF n = 0 THEN (IF A.nullable THEN {<<>>} ELSE {})
     ELSE Go({ <<Start(A, w[i]), {i}, <<w[i]>> >> : i \in {j \in Elig(w, {}) : Start(A, w[j]) # {}} }, 1)

UniqueArr(A, w) == Cardinality(Arrangements(A, w)) = 1
TheArr(A, w) == CHOOSE x \in Arrangements(A, w) : TRUE

\* ---------------------------------------------------------------------------
\* every accepted word up to length n (level-wise over <<word, position set>>)
RECURSIVE WordsLevels(_, _, _, _)
WordsLevels(A, level, k, acc) ==
  LET ok == {x[1] : x \in {y \in level : y[2] \cap A.last # {}}}
  IN IF k = 0 \/ level = {} THEN acc \cup ok
     ELSE WordsLevels(A, UNION {{<<Append(x[1], a), Step(A, x[2], a)>> : a \in {A.lab[q] : q \in UNION {A.follow[p] : p \in x[2]}}} : x \in level},
                      k - 1, acc \cup ok)
WordsUpTo(A, n) ==
  (IF A.nullable THEN {<<>>} ELSE {}) \cup
  (IF n = 0 THEN {} ELSE WordsLevels(A, {<<<<a>>, Start(A, a)>> : a \in {A.lab[q] : q \in A.first}}, n - 1, {}))

\* ---------------------------------------------------------------------------
\* edge cover: for every follow edge (and every first position) one shortest accepted path through it
RECURSIVE BfsTo(_, _, _)
BfsTo(A, frontier, f) ==
  LET new == {q \in UNION {A.follow[p] : p \in frontier} : q \notin DOMAIN f}
  IN IF new = {} THEN f
     ELSE BfsTo(A, new, f @@ [q \in new |-> LET p == CHOOSE x \in frontier : q \in A.follow[x] IN Append(f[p], q)])
SPTo(A) == BfsTo(A, A.first, [q \in A.first |-> <<q>>])          \* position -> shortest path from the start
RECURSIVE BfsFrom(_, _, _)
BfsFrom(A, frontier, g) ==
  LET new == {p \in Pos(A) \ DOMAIN g : A.follow[p] \cap frontier # {}}
  IN IF new = {} THEN g
     ELSE BfsFrom(A, new, g @@ [p \in new |-> LET q == CHOOSE x \in frontier : x \in A.follow[p] IN <<q>> \o g[q]])
SPFrom(A) == BfsFrom(A, A.last, [q \in A.last |-> <<>>])          \* position -> shortest path on to acceptance
EdgeCoverPaths(A) ==
  LET t == SPTo(A)  f == SPFrom(A)
  IN {t[q] \o f[q] : q \in A.first} \cup
     UNION {{t[p] \o <<q>> \o f[q] : q \in A.follow[p]} : p \in Pos(A)}
\* the same, restricted to every stride-th edge (a deterministic thinning for very dense automata)
KeepEdge(p, q, stride) == ((p * 7 + q) % stride) = 0
EdgeCoverPathsS(A, stride) ==
  LET t == SPTo(A)  f == SPFrom(A)
  IN {t[q] \o f[q] : q \in A.first} \cup
     UNION {{t[p] \o <<q>> \o f[q] : q \in {x \in A.follow[p] : KeepEdge(p, x, stride)}} : p \in Pos(A)}
EdgeCoverWords(A) == {[i \in DOMAIN pth |-> A.lab[pth[i]]] : pth \in EdgeCoverPaths(A)}

\* pump: for every follow edge that closes a cycle, a shortest accepted path that goes round that cycle twice
\* (repeated groups: harmony chords, part-group brackets, MIDI device / instrument pairs, ...)
PathsFrom(A, q) == BfsTo(A, {q}, [x \in {q} |-> <<q>>])          \* position -> shortest path from q, starting with q
PumpPaths(A) ==
  LET t == SPTo(A)  f == SPFrom(A)
  IN UNION {{t[p] \o PathsFrom(A, q)[p] \o <<q>> \o f[q] : q \in {x \in A.follow[p] : p \in DOMAIN PathsFrom(A, x)}} : p \in Pos(A)}
PumpWords(A) == {[i \in DOMAIN pth |-> A.lab[pth[i]]] : pth \in PumpPaths(A)}
PumpPathsS(A, stride) ==
  LET t == SPTo(A)  f == SPFrom(A)
  IN UNION {{t[p] \o PathsFrom(A, q)[p] \o <<q>> \o f[q] :
                q \in {x \in A.follow[p] : KeepEdge(p, x, stride) /\ p \in DOMAIN PathsFrom(A, x)}} : p \in Pos(A)}
WordsOfPaths(A, ps) == {[i \in DOMAIN pth |-> A.lab[pth[i]]] : pth \in ps}

\* ---------------------------------------------------------------------------
\* the same machinery over code-point classes (xs:pattern): a label is a
\* sequence of <<lo, hi>> ranges, a word is a sequence of code points
InCls(c, cp) == \E k \in DOMAIN c : c[k][1] <= cp /\ cp <= c[k][2]
CStep(A, S, cp) == {q \in Pos(A) : InCls(A.lab[q], cp) /\ \E p \in S : q \in A.follow[p]}
RECURSIVE CRun(_,_,_,_)
CRun(A, S, w, i) == IF i > Len(w) THEN S ELSE CRun(A, CStep(A, S, w[i]), w, i+1)
CAccepts(A, w) == IF Len(w) = 0 THEN A.nullable
                  ELSE CRun(A, {q \in A.first : InCls(A.lab[q], w[1])}, w, 2) \cap A.last # {}
====
