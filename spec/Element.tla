---- MODULE Element ----
(***************************************************************************)
(* One element's children: the reference semantics of add_child, remove,   *)
(* replace_child, xml_* dot assignment and to_string at the level of the   *)
(* public API, as *labelled clauses*.  A clause is an implication over      *)
(*   (content model A, state before s, arguments, result r, state after s2) *)
(* and carries the id of the property it encodes.  The same clauses are     *)
(* used three ways:                                                         *)
(*   ElementMC    -- as the transition relation of a state machine (TLC     *)
(*                   checks consistency, closure and non-vacuity),          *)
(*   ElementGen   -- to enumerate the behaviours replayed into the library, *)
(*   ElementTrace -- to judge every recorded step of the real library.      *)
(*                                                                         *)
(* State s == [ins, ord  : sequences of child ids (insertion / schema order)*)
(*             insw, ordw: the same as sequences of element names           *)
(*             kids, parof: all children ever created in this history and,  *)
(*                          per kid, 1 if it reports this element as parent *)
(*                          0 if none                                       *)
(*             chk        : the element's xsd_check flag                    *)
(*             attrs, val : attribute pairs and value (opaque here)]        *)
(* Result r == [ok, exc, mro, out, err, nonemsg]                            *)
(* Nothing of the matcher (chosen_child, force_validate, ...) appears: the  *)
(* properties are about behaviour.                                          *)
(***************************************************************************)
EXTENDS Regular, Naturals, Sequences, FiniteSets

Range(f) == {f[i] : i \in DOMAIN f}
IsPerm(a, b) == Len(a) = Len(b) /\ Range(a) = Range(b) /\ Cardinality(Range(a)) = Len(a)
Without(s, k) == [j \in 1..(Len(s) - 1) |-> IF j < k THEN s[j] ELSE s[j + 1]]
Subst(s, k, v) == [j \in DOMAIN s |-> IF j = k THEN v ELSE s[j]]
IndexOf(s, v) == CHOOSE j \in DOMAIN s : s[j] = v
ParOf(s, k) == s.parof[IndexOf(s.kids, k)]
NoFwd == 0 - 1

\* the projection is internally consistent: names follow ids
WellFormed(s) == /\ Len(s.ins) = Len(s.insw) /\ Len(s.ord) = Len(s.ordw)
                 /\ Len(s.kids) = Len(s.parof)
                 /\ Range(s.ins) \subseteq Range(s.kids)

\* ---- exception discipline (C19) -------------------------------------------
DocumentedFamilies == {"XMLElementException", "XMLChildContainerException", "XSDException",
                       "XMLChildContainerFactoryException"}
InternalErrors == {"NotImplementedError", "IndexError", "KeyError", "RecursionError", "NameError",
                   "AssertionError", "UnboundLocalError", "ZeroDivisionError", "StopIteration"}
\* mro = names of the exception class and all its bases
Documented(r, allowAttr) ==
  \/ r.ok
  \/ /\ Range(r.mro) \cap InternalErrors = {}
     /\ \/ Range(r.mro) \cap DocumentedFamilies # {}
        \/ "TypeError" \in Range(r.mro) \/ "ValueError" \in Range(r.mro)
        \/ (allowAttr /\ "AttributeError" \in Range(r.mro) /\ ~r.nonemsg)
Quiet(r) == r.out = 0 /\ r.err = 0

\* same-named children keep their insertion order in the schema-ordered view
SameNameStable(s) ==
  \A i, j \in DOMAIN s.ord : (i < j /\ s.ordw[i] = s.ordw[j]) => IndexOf(s.ins, s.ord[i]) < IndexOf(s.ins, s.ord[j])

Frame(s, s2) == s2.ins = s.ins /\ s2.ord = s.ord /\ s2.insw = s.insw /\ s2.ordw = s.ordw
                /\ s2.chk = s.chk /\ s2.attrs = s.attrs /\ s2.val = s.val
                /\ \A k \in Range(s.kids) : ParOf(s2, k) = ParOf(s, k)

\* Every clause function returns [ante, holds]: ante[n] says whether clause n was *exercised* by
\* this step (its antecedent held), holds[n] == ante[n] => consequent.  Failing / Exercised below.

\* =========================== add_child(k named a, forward) =================
\* pure: the history so far consists of successful, un-forwarded adds only
\* M == [A |-> automaton, P |-> Plus(A), FD |-> FirstDown(A)]  (precomputed per type: SchemaDerived)
\* free: no earlier add of this history used forward (a forwarded child pins an alternative the user chose; what is
\* rejected afterwards because of that choice is not held against C12)
AddClauses(M, s, k, a, fwd, pure, free, r, s2) ==
  LET A == M.A  P == M.P  FD == M.FD
      ante == [
        C02_accept |-> s.chk /\ pure /\ fwd = NoFwd /\ s.ordw = s.insw /\ ViablePrefix(A, Append(s.insw, a)),
        C07_ext    |-> s.chk /\ r.ok,
        C12_reject |-> s.chk /\ ~r.ok /\ fwd = NoFwd /\ free,
        C18_free   |-> ~s.chk,
        C06_add    |-> r.ok,
        C10_frame  |-> ~r.ok,
        C19_class  |-> ~r.ok,
        C19_quiet  |-> TRUE ]
  IN [ante |-> ante, holds |-> [
   C02_accept |-> ante.C02_accept => r.ok,
   C07_ext    |-> ante.C07_ext => Ext(A, P, FD, s2.insw),
   C12_reject |-> ante.C12_reject => ~Ext(A, P, FD, Append(s.insw, a)),
   C18_free   |-> ante.C18_free => (r.ok /\ s2.ins = Append(s.ins, k) /\ s2.ord = s2.ins),   \* any child, kept in insertion order
   C06_add    |-> ante.C06_add => /\ s2.ins = Append(s.ins, k) /\ s2.insw = Append(s.insw, a)
                                  /\ IsPerm(s2.ord, s2.ins)
                                  /\ \A j \in DOMAIN s2.ord : s2.ordw[j] = s2.insw[IndexOf(s2.ins, s2.ord[j])]
                                  /\ ParOf(s2, k) = 1
                                  /\ \A c \in Range(s.ins) : ParOf(s2, c) = 1,
   C10_frame  |-> ante.C10_frame => (Frame(s, s2) /\ ParOf(s2, k) = 0),
   C19_class  |-> ante.C19_class => Documented(r, FALSE),
   C19_quiet  |-> Quiet(r) ]]

\* =========================== remove(child at insertion index i) ============
RemoveClauses(M, s, i, r, s2) ==
  LET k == s.ins[i]
      ante == [C06_remove |-> r.ok, C18_free |-> ~s.chk, C10_frame |-> ~r.ok, C19_class |-> TRUE, C19_quiet |-> TRUE]
  IN [ante |-> ante, holds |-> [
   C06_remove |-> ante.C06_remove => /\ s2.ins = Without(s.ins, i) /\ s2.insw = Without(s.insw, i)
                                     /\ IsPerm(s2.ord, s2.ins)
                                     /\ \A j \in DOMAIN s2.ord : s2.ordw[j] = s2.insw[IndexOf(s2.ins, s2.ord[j])]
                                     /\ ParOf(s2, k) = 0
                                     /\ \A c \in Range(s2.ins) : ParOf(s2, c) = 1,
   C18_free   |-> ante.C18_free => (r.ok /\ s2.ord = s2.ins),
   C10_frame  |-> ante.C10_frame => Frame(s, s2),
   C19_class  |-> r.ok,              \* removing a present child has no documented way to fail
   C19_quiet  |-> Quiet(r) ]]

\* =========================== replace_child(child at index i, k named a) ====
ReplaceClauses(M, s, i, k, a, r, s2) ==
  LET o == s.ins[i]  A == M.A
      ante == [C06_replace |-> r.ok, C07_ext |-> s.chk /\ r.ok, C18_free |-> ~s.chk, C10_frame |-> ~r.ok,
               C19_class |-> ~r.ok, C19_quiet |-> TRUE]
  IN [ante |-> ante, holds |-> [
   C06_replace |-> ante.C06_replace => /\ s2.ins = Subst(s.ins, i, k) /\ s2.insw = Subst(s.insw, i, a)
                                       /\ IsPerm(s2.ord, s2.ins)
                                       /\ \A j \in DOMAIN s2.ord : s2.ordw[j] = s2.insw[IndexOf(s2.ins, s2.ord[j])]
                                       /\ ParOf(s2, o) = 0 /\ ParOf(s2, k) = 1,
   C07_ext     |-> ante.C07_ext => Ext(A, M.P, M.FD, s2.insw),
   C18_free    |-> ante.C18_free => (r.ok /\ s2.ord = s2.ins),
   C10_frame   |-> ante.C10_frame => (Frame(s, s2) /\ ParOf(s2, k) = 0),
   C19_class   |-> ante.C19_class => Documented(r, FALSE),
   C19_quiet   |-> Quiet(r) ]]

\* =========================== to_string(intelligent_choice) =================
\* outw: child names of the root in the emitted text (as a standard parser reads it)
ToStringClauses(M, s, ic, pure, r, s2, outw) ==
  LET A == M.A
      ante == [
        C01_word   |-> s.chk /\ r.ok,
        C01_text   |-> r.ok,
        C02_final  |-> s.chk /\ pure /\ Accepts(A, s.insw),
        C03_accepts |-> s.chk /\ pure /\ r.ok /\ s2.ordw = s.insw,
        C12_unique |-> s.chk /\ pure /\ UniqueArr(A, s.insw),
        C06_out    |-> TRUE,
        C16_pure   |-> TRUE,
        C18_free   |-> ~s.chk,
        C18_order  |-> ~s.chk /\ r.ok,
        C10_frame  |-> ~r.ok,
        C19_class  |-> ~r.ok,
        C19_quiet  |-> TRUE ]
  IN [ante |-> ante, holds |-> [
   C18_order  |-> ante.C18_order => outw = s.insw,        \* an unchecked element serialises its children in insertion order
   C01_word   |-> ante.C01_word => Accepts(A, s2.ordw),
   C01_text   |-> ante.C01_text => outw = s2.ordw,
   C02_final  |-> ante.C02_final => (r.ok /\ s2.ordw = s.insw),
   \* C03, dynamic side: a child sequence supplied in document order that the class accepts and keeps as supplied
   \* is a word of the schema's content model (the converse direction is C02_final)
   C03_accepts |-> ante.C03_accepts => Accepts(A, s.insw),
   C12_unique |-> ante.C12_unique => (r.ok /\ s2.ordw = TheArr(A, s.insw) /\ SameNameStable(s2)),
   C06_out    |-> /\ IsPerm(s2.ord, s2.ins) /\ s2.ins = s.ins
                  /\ \A c \in Range(s.kids) : ParOf(s2, c) = ParOf(s, c),
   \* with intelligent_choice re-arranging the children is the flag's documented purpose: only the
   \* children, attributes, value and check flag must be preserved
   C16_pure   |-> IF ic THEN (s2.ins = s.ins /\ s2.attrs = s.attrs /\ s2.val = s.val /\ s2.chk = s.chk)
                        ELSE Frame(s, s2),
   C18_free   |-> ante.C18_free => (r.ok /\ s2.ord = s2.ins),
   C10_frame  |-> ante.C10_frame => (IF ic THEN s2.ins = s.ins ELSE Frame(s, s2)),
   C19_class  |-> ante.C19_class => Documented(r, FALSE),
   C19_quiet  |-> Quiet(r) ]]

\* ---- relational clauses: compare the observation of a step with that of its twin ----
\* obs == [ok, exc, insw, ordw, text, pat]
SameObs(x, y) == x.ok = y.ok /\ x.exc = y.exc /\ x.insw = y.insw /\ x.ordw = y.ordw /\ x.text = y.text /\ x.pat = y.pat

Failing(c) == {n \in DOMAIN c.holds : ~c.holds[n]}
Exercised(c) == {n \in DOMAIN c.ante : c.ante[n]}
====
