---- MODULE ElementTrace ----
(***************************************************************************)
(* TV: every recorded step of the real library is judged against the       *)
(* clauses of Element.tla.  The trace is a file of ndjson events (one per   *)
(* outermost public call, see harness/replay.py); events form a forest      *)
(* through `parent` (the event whose post-state is this event's pre-state)  *)
(* and are linked to their twins (tw10, tw16, tw11, tw11s, tw15).           *)
(* The verdict is total: for every event the set of failing clauses is      *)
(* reported; the run is accepted only if every line was consumed.           *)
(***************************************************************************)
EXTENDS Element, SchemaDerived, Report, IOUtils, TLC

Trace == ndJsonDeserialize(IOEnv.TRACE_FILE)

A(e) == ModelFor(e.type)

RECURSIVE PureHist(_)
PureHist(id) == id = 0 \/ (LET f == Trace[id] IN f.op = "add" /\ f.res.ok /\ f.fwd = NoFwd /\ PureHist(f.parent))

\* pat: which insertion-order position each schema-ordered child has (0 = not among the children any more): twin
\* histories number their children differently, the pattern is what must agree
Pattern(s) == [j \in DOMAIN s.ord |-> IF s.ord[j] \in Range(s.ins) THEN IndexOf(s.ins, s.ord[j]) ELSE 0]
RECURSIVE NoFwdHist(_)
NoFwdHist(id) == id = 0 \/ (LET f == Trace[id] IN f.fwd = NoFwd /\ NoFwdHist(f.parent))

Obs(e) == [ok |-> e.res.ok, exc |-> e.res.exc, insw |-> e.post.insw, ordw |-> e.post.ordw, text |-> e.text, pat |-> Pattern(e.post)]

Sane(s) == IsPerm(s.ord, s.ins)
EmptyState(s) == s.ins = <<>> /\ s.ord = <<>> /\ s.kids = <<>>
Continuous(e) == IF e.parent = 0 THEN EmptyState(e.pre) ELSE Trace[e.parent].post = e.pre

FirstIdx(w, a) == CHOOSE j \in DOMAIN w : w[j] = a /\ \A k \in 1..(j - 1) : w[k] # a
Has(w, a) == \E j \in DOMAIN w : w[j] = a

\* ---- clauses of the step itself ---------------------------------------------
StepClauses(e) ==
  LET pure == PureHist(e.parent) IN
  CASE e.op = "add"      -> AddClauses(A(e), e.pre, e.kid, e.sym, e.fwd, pure, NoFwdHist(e.parent), e.res, e.post)
    [] e.op = "remove"   -> RemoveClauses(A(e), e.pre, e.idx, e.res, e.post)
    [] e.op \in {"replace", "replacep"} -> ReplaceClauses(A(e), e.pre, e.idx, e.kid, e.sym, e.res, e.post)
    \* an element under test that could only be built without a required (namespaced) attribute must be
    \* refused by to_string whatever its children: the acceptance clauses are not exercised on it
    [] e.op = "tostring" -> ToStringClauses(A(e), e.pre, e.ic, pure /\ ~e.lenient, e.res, e.post, e.outw)
    \* C15: a dot assignment of an element is replace_child on the first child of that name, or add_child
    [] e.op = "dotelem"  -> IF Has(e.pre.insw, e.sym)
                            THEN ReplaceClauses(A(e), e.pre, FirstIdx(e.pre.insw, e.sym), e.kid, e.sym, e.res, e.post)
                            ELSE AddClauses(A(e), e.pre, e.kid, e.sym, NoFwd, FALSE, NoFwdHist(e.parent), e.res, e.post)
    \* C15: a value shortcut sets the value of the first child of that name, or adds a new child built from the value
    [] e.op = "dotval"   -> IF Has(e.pre.insw, e.sym)
                            THEN [ante |-> [C15_valframe |-> e.res.ok, C19_quiet |-> TRUE],
                                  holds |-> [C15_valframe |-> e.res.ok => (e.post.ins = e.pre.ins /\ e.post.ord = e.pre.ord), C19_quiet |-> Quiet(e.res)]]
                            ELSE IF e.res.ok /\ e.kid = 0 THEN [ante |-> [C15_valframe |-> TRUE], holds |-> [C15_valframe |-> FALSE]]
                            ELSE AddClauses(A(e), e.pre, e.kid, e.sym, NoFwd, FALSE, NoFwdHist(e.parent), e.res, e.post)
    \* C15: assigning None removes the first child of that name; with none present it is a no-op
    [] e.op = "dotnone"  -> IF Has(e.pre.insw, e.sym)
                            THEN RemoveClauses(A(e), e.pre, FirstIdx(e.pre.insw, e.sym), e.res, e.post)
                            ELSE [ante |-> [C15_noop |-> TRUE, C19_quiet |-> TRUE],
                                  holds |-> [C15_noop |-> e.res.ok /\ Frame(e.pre, e.post), C19_quiet |-> Quiet(e.res)]]

\* ---- relational clauses (twins) ---------------------------------------------
RECURSIVE CleanAdds(_)
CleanAdds(id) == id = 0 \/ (LET f == Trace[id] IN f.op = "add" /\ f.res.ok /\ CleanAdds(f.parent))

TwinClauses(e) ==
  LET ante == [
        C10_future |-> e.tw10 # 0,
        C16_future |-> e.tw16 # 0,
        C11_obs    |-> e.tw11 # 0 /\ CleanAdds(Trace[e.tw11].parent),
        C11_state  |-> e.tw11s # 0 /\ CleanAdds(e.tw11s),
        C15_same   |-> e.tw15 # 0,
        C15_target |-> e.op \in {"dotelem", "dotnone"} /\ Has(e.pre.insw, e.sym) /\ e.res.ok,
        C15_readchild |-> e.reads # <<>>,
        \* C18: for children supplied in a schema-valid order the unchecked element's output is byte-identical
        C18_same   |-> /\ e.tw18 # 0 /\ e.op = "tostring" /\ ~e.pre.chk
                       /\ LET f == Trace[e.tw18] IN f.res.ok /\ f.post.ordw = f.post.insw /\ f.post.insw = e.post.insw ]
  IN [ante |-> ante, holds |-> [
   \* a failed call changes nothing: what follows it behaves as if it had never been made
   C10_future |-> ante.C10_future => SameObs(Obs(e), Obs(Trace[e.tw10])),
   \* to_string changes no later result
   C16_future |-> ante.C16_future => SameObs(Obs(e), Obs(Trace[e.tw16])),
   \* after a removal the element behaves like a fresh one holding the remaining children
   C11_obs    |-> ante.C11_obs => SameObs(Obs(e), Obs(Trace[e.tw11])),
   C11_state  |-> ante.C11_state => e.post.ordw = Trace[e.tw11s].post.ordw,
   \* shortcut == explicit call
   \* (the two histories create their children in the same order, so the child numbers are comparable as well)
   C15_same   |-> ante.C15_same => LET f == Trace[e.tw15] IN
                     SameObs(Obs(e), Obs(f)) /\ (e.res.ok => (e.post.ins = f.post.ins /\ e.post.ord = f.post.ord)),
   \* the shortcut addresses the FIRST child of that name in insertion order, like find_child / the explicit call would
   C15_target |-> ante.C15_target =>
        LET j == FirstIdx(e.pre.insw, e.sym) IN
        e.post.ins = (IF e.op = "dotelem" THEN Subst(e.pre.ins, j, e.kid) ELSE Without(e.pre.ins, j)),
   \* reading e.xml_x: a child of that name that the element holds (which one, when there are several, is not
   \* constrained), None when there is none; never an error for a schema child
   C15_readchild |-> ante.C15_readchild =>
        \A j \in DOMAIN e.reads :
           LET nm == e.reads[j][1]  got == e.reads[j][2]
           IN IF Has(e.post.insw, nm)
              THEN got \in Range(e.post.ins) /\ e.post.insw[IndexOf(e.post.ins, got)] = nm
              ELSE got = 0,
   C18_same   |-> ante.C18_same => (e.res.ok /\ e.text = Trace[e.tw18].text) ]]

AllClauses == {"C01_word", "C01_text", "C02_accept", "C02_final", "C03_accepts", "C06_add", "C06_remove", "C06_replace", "C06_out",
               "C07_ext", "C10_frame", "C10_future", "C11_obs", "C11_state", "C12_reject", "C12_unique", "C15_same",
               "C15_noop", "C15_valframe", "C15_readchild", "C15_target", "C16_pure", "C16_future", "C18_free", "C18_same", "C18_order", "C19_class", "C19_quiet", "cascade"}

VARIABLES i, cnt     \* cnt[n] = number of steps so far that exercised clause n (non-vacuity accounting)

Init == i = 1 /\ cnt = [n \in AllClauses |-> 0]
Next == /\ i <= Len(Trace)
        /\ LET e == Trace[i] IN
           /\ IF WellFormed(e.pre) /\ WellFormed(e.post) /\ Continuous(e) THEN TRUE ELSE Report(<<"BROKEN", i>>)
           \* a step whose pre-state is already inconsistent (the two views disagree) lies behind an earlier, reported
           \* divergence; it is still judged (so that each property names its own symptom) and counted as "cascade"
           /\ LET sc == StepClauses(e)  tc == TwinClauses(e)
                  v == Failing(sc) \cup Failing(tc)
                  x == Exercised(sc) \cup Exercised(tc) \cup (IF Sane(e.pre) THEN {} ELSE {"cascade"})
              IN /\ (IF v = {} THEN TRUE ELSE Report(<<"V", i, v>>))
                 /\ cnt' = [n \in AllClauses |-> cnt[n] + (IF n \in x THEN 1 ELSE 0)]
        /\ i' = i + 1
Spec == Init /\ [][Next]_<<i, cnt>>
Done == (i = Len(Trace) + 1) => Report(<<"DONE", Len(Trace), cnt>>)
====
