---- MODULE Lexical ----
(***************************************************************************)
(* Lexical spaces of the XSD simple types used by MusicXML, over strings   *)
(* given as sequences of code points.  ST, PAT come from Schema (generated  *)
(* from the pinned XSD): flattened facets, enumeration literals as code     *)
(* point sequences, one Glushkov automaton per xs:pattern.                  *)
(*   InLex(tn, s)  -- s, after the whiteSpace normalisation of type tn,     *)
(*                    is in the lexical space of tn                         *)
(* Numbers are never compared as floats: decimal text is parsed into sign,  *)
(* integer digits and "has a non-zero fraction", and compared with the      *)
(* (integer) facet bounds digit-wise; TLC integers are 32 bit, so integer   *)
(* parts longer than 9 digits are treated as "huge".                        *)
(***************************************************************************)
EXTENDS Regular, Schema, Integers, Sequences, FiniteSets

SP == 32
IsWS(c) == c \in {9, 10, 13, 32}
IsDigit(c) == c >= 48 /\ c <= 57

\* ---- whiteSpace facet ------------------------------------------------------
Replace(s) == [i \in DOMAIN s |-> IF IsWS(s[i]) THEN SP ELSE s[i]]
RECURSIVE CollapseFrom(_, _, _)
\* drop leading blanks and squeeze runs; trailing blank removed afterwards
CollapseFrom(s, i, acc) ==
  IF i > Len(s) THEN acc
  ELSE IF s[i] = SP /\ (acc = <<>> \/ acc[Len(acc)] = SP) THEN CollapseFrom(s, i + 1, acc)
  ELSE CollapseFrom(s, i + 1, Append(acc, s[i]))
Collapse(s) == LET r == CollapseFrom(Replace(s), 1, <<>>)
               IN IF r # <<>> /\ r[Len(r)] = SP THEN SubSeq(r, 1, Len(r) - 1) ELSE r
Normalize(ws, s) == IF ws = "collapse" THEN Collapse(s) ELSE IF ws = "replace" THEN Replace(s) ELSE s

\* ---- decimal / integer -----------------------------------------------------
\* parse: [sign, ip (integer digits), fp (fraction digits), ok]
Signed(s) == s # <<>> /\ s[1] \in {43, 45}
Body(s) == IF Signed(s) THEN SubSeq(s, 2, Len(s)) ELSE s
DotPos(b) == IF \E i \in DOMAIN b : b[i] = 46 THEN CHOOSE i \in DOMAIN b : b[i] = 46 /\ \A j \in 1..(i - 1) : b[j] # 46 ELSE 0
AllDigits(d) == \A i \in DOMAIN d : IsDigit(d[i])
IsIntegerLex(s) == LET b == Body(s) IN b # <<>> /\ AllDigits(b)
IsDecimalLex(s) ==
  LET b == Body(s)  p == DotPos(b)
  IN IF p = 0 THEN b # <<>> /\ AllDigits(b)
     ELSE LET ip == SubSeq(b, 1, p - 1)  fp == SubSeq(b, p + 1, Len(b))
          IN AllDigits(ip) /\ AllDigits(fp) /\ (ip # <<>> \/ fp # <<>>)
IntPart(s) == LET b == Body(s)  p == DotPos(b) IN IF p = 0 THEN b ELSE SubSeq(b, 1, p - 1)
FracPart(s) == LET b == Body(s)  p == DotPos(b) IN IF p = 0 THEN <<>> ELSE SubSeq(b, p + 1, Len(b))
RECURSIVE StripZeros(_)
StripZeros(d) == IF d # <<>> /\ d[1] = 48 THEN StripZeros(Tail(d)) ELSE d
RECURSIVE DigitsVal(_, _, _)
DigitsVal(d, i, acc) == IF i > Len(d) THEN acc ELSE DigitsVal(d, i + 1, acc * 10 + (d[i] - 48))
FracNonZero(s) == \E i \in DOMAIN FracPart(s) : FracPart(s)[i] # 48
\* magnitude class of |value|: <<huge?, integer part value>>
Huge(s) == Len(StripZeros(IntPart(s))) > 9
IntVal(s) == DigitsVal(StripZeros(IntPart(s)), 1, 0)
IsZero(s) == ~Huge(s) /\ IntVal(s) = 0 /\ ~FracNonZero(s)
Negative(s) == Signed(s) /\ s[1] = 45 /\ ~IsZero(s)
\* Cmp(s, b) \in {-1, 0, 1}: sign of (value(s) - b), b an integer
CmpAbs(s, m) == \* compare |value| with integer m >= 0
  IF Huge(s) THEN 1
  ELSE IF IntVal(s) > m THEN 1
  ELSE IF IntVal(s) = m THEN (IF FracNonZero(s) THEN 1 ELSE 0)
  ELSE 0 - 1
Cmp(s, b) ==
  IF ~Negative(s) THEN (IF b < 0 THEN 1 ELSE CmpAbs(s, b))
  ELSE (IF b >= 0 THEN 0 - 1 ELSE 0 - CmpAbs(s, 0 - b))

\* ---- xs:date ---------------------------------------------------------------
Num2(s, i) == (s[i] - 48) * 10 + (s[i + 1] - 48)
Num4(s, i) == (s[i] - 48) * 1000 + (s[i + 1] - 48) * 100 + (s[i + 2] - 48) * 10 + (s[i + 3] - 48)
Leap(y) == (y % 4 = 0 /\ y % 100 # 0) \/ y % 400 = 0
DaysIn(y, m) == IF m \in {1, 3, 5, 7, 8, 10, 12} THEN 31 ELSE IF m = 2 THEN (IF Leap(y) THEN 29 ELSE 28) ELSE 30
IsTZ(z) == \/ z = <<>>
           \/ z = <<90>>
           \/ /\ Len(z) = 6 /\ z[1] \in {43, 45} /\ z[4] = 58
              /\ IsDigit(z[2]) /\ IsDigit(z[3]) /\ IsDigit(z[5]) /\ IsDigit(z[6])
              /\ (Num2(z, 2) < 14 \/ (Num2(z, 2) = 14 /\ Num2(z, 5) = 0)) /\ Num2(z, 5) < 60
\* years of four or more digits (no leading zero beyond four, never 0000), as XSD 1.0 part 2, 3.2.9.1 says
RECURSIVE DigitRun(_, _)
DigitRun(s, i) == IF i <= Len(s) /\ IsDigit(s[i]) THEN DigitRun(s, i + 1) ELSE i - 1      \* last index of the leading digit run
RECURSIVE NumMod(_, _, _, _)
NumMod(s, i, n, acc) == IF i > n THEN acc ELSE NumMod(s, i + 1, n, (acc * 10 + (s[i] - 48)) % 400)    \* the year modulo 400 decides Leap
IsDateLex(s0) ==
  LET s == IF s0 # <<>> /\ s0[1] = 45 THEN Tail(s0) ELSE s0
      n == DigitRun(s, 1)
  IN /\ n >= 4 /\ Len(s) >= n + 6
     /\ (n > 4 => s[1] # 48)
     /\ \E i \in 1..n : s[i] # 48
     /\ \A i \in {n + 2, n + 3, n + 5, n + 6} : IsDigit(s[i])
     /\ s[n + 1] = 45 /\ s[n + 4] = 45
     /\ LET y == NumMod(s, 1, n, 0)  m == Num2(s, n + 2)  d == Num2(s, n + 5)
        IN m >= 1 /\ m <= 12 /\ d >= 1 /\ d <= DaysIn(IF y = 0 THEN 400 ELSE y, m)
     /\ IsTZ(SubSeq(s, n + 7, Len(s)))

\* ---- membership ------------------------------------------------------------
RECURSIVE InLex(_, _)
InLex(tn, s) ==
  LET d == ST[tn] IN
  IF d.union # <<>> THEN \E i \in DOMAIN d.union : InLex(d.union[i], s)
  ELSE LET x == Normalize(d.ws, s) IN
    /\ (d.hasEnum => x \in d.enumcp)
    /\ \A g \in DOMAIN d.pats : \E pid \in d.pats[g] : CAccepts(PAT[pid], x)
    /\ Len(x) >= d.minLen
    /\ (d.prim = "decimal" =>
          /\ (IF d.int THEN IsIntegerLex(x) ELSE IsDecimalLex(x))
          /\ (d.hasMin => (IF d.minEx THEN Cmp(x, d.minV) = 1 ELSE Cmp(x, d.minV) >= 0))
          /\ (d.hasMax => Cmp(x, d.maxV) <= 0))
    /\ (d.prim = "date" => IsDateLex(x))

\* the offered text is already in the normalised form of the type
RECURSIVE IsNormalized(_, _)
IsNormalized(tn, s) ==
  LET d == ST[tn] IN
  IF d.union # <<>> THEN \E i \in DOMAIN d.union : (IsNormalized(d.union[i], s) /\ InLex(d.union[i], s))
  ELSE Normalize(d.ws, s) = s
====
