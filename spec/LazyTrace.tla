---- MODULE LazyTrace ----
(***************************************************************************)
(* TV for C20: one record per executed schedule <<workload A, pre-emption   *)
(* line i, workload B>>.  Against AtomicCache: what each thread observed     *)
(* equals what it observes running alone (the atomic cache's answers do not  *)
(* depend on the interleaving, so linearizability reduces to this).          *)
(* Against LazyInit (the design TLC verified): at the pre-emption point no   *)
(* class-level table is observably partial -- reported as DRIFT, not as a    *)
(* violation, so that a behaviour-preserving change of the caches cannot     *)
(* raise an alarm while a stale model cannot go unnoticed.                   *)
(***************************************************************************)
EXTENDS Naturals, Sequences, FiniteSets, Report, IOUtils
Trace == ndJsonDeserialize(IOEnv.TRACE_FILE)
Full == JsonDeserialize(IOEnv.FULL_FILE)      \* table name -> complete length (from a solo run)

Partial(e) == {n \in DOMAIN e.tables : e.tables[n] >= 0 /\ e.tables[n] < Full[n]}
VARIABLES i, cnt
Init == i = 1 /\ cnt = 0
Next == /\ i <= Len(Trace)
        /\ LET e == Trace[i]
               okA == e.A = e.soloA
               okB == e.B = e.soloB
           IN /\ (IF e.error # "" THEN Report(<<"BROKEN", i, e.error>>) ELSE TRUE)
              /\ (IF okA /\ okB THEN TRUE ELSE Report(<<"V", i, {"C20_solo"}, okA, okB>>))
              /\ (IF Partial(e) # {} THEN Report(<<"DRIFT", i, Partial(e)>>) ELSE TRUE)
              /\ cnt' = cnt + 1
        /\ i' = i + 1
Spec == Init /\ [][Next]_<<i, cnt>>
Done == (i = Len(Trace) + 1) => Report(<<"DONE", Len(Trace), cnt>>)
====
