---- MODULE WriterEffects ----
(* The externally visible effect sequence of write() as a function of the scenario; shared by Writer (where TLC *)
(* checks that the state machine produces exactly this) and WriterTrace (where recorded effects are compared). *)
\* the effect sequence a recorder sees, as a function of the scenario (used by WriterTrace; TLC checks it agrees)
EffectsOf(design, fails, serfails, openfails) ==
  IF design = "validate-first"
  THEN IF fails THEN <<"validate-raise">>
       ELSE IF serfails THEN <<"validate", "serialise-raise">>
       ELSE IF openfails THEN <<"validate", "serialise", "open-raise">>
       ELSE <<"validate", "serialise", "open", "decl", "body", "close">>
  ELSE IF design = "open-first"
  THEN IF openfails THEN <<"open-raise">>
       ELSE IF fails THEN <<"open", "decl", "validate-raise">>
       ELSE IF serfails THEN <<"open", "decl", "validate", "serialise-raise">>
       ELSE <<"open", "decl", "validate", "serialise", "body", "close">>
  ELSE IF fails THEN <<"validate-raise">>
       ELSE IF openfails THEN <<"validate", "open-raise">>
       ELSE IF serfails THEN <<"validate", "open", "decl", "serialise-raise">>
       ELSE <<"validate", "open", "decl", "serialise", "body", "close">>
====
