---- MODULE WriterEffects ----
(* The externally visible effect sequence of write() as a function of the scenario; shared by Writer (where TLC *)
(* checks that the state machine produces exactly this) and WriterTrace (where recorded effects are compared). *)
\* the effect sequence a recorder sees, as a function of the scenario (used by WriterTrace; TLC checks it agrees)
EffectsOf(design, fails, openfails) ==
  IF design = "validate-first"
  THEN IF fails THEN <<"validate-raise">>
       ELSE IF openfails THEN <<"validate", "open-raise">>
       ELSE <<"validate", "open", "decl", "body", "close">>
  ELSE IF openfails THEN <<"open-raise">>
       ELSE IF fails THEN <<"open", "decl", "validate-raise">>
       ELSE <<"open", "decl", "validate", "body", "close">>
====
