---- MODULE PairTrace ----
(***************************************************************************)
(* TV for C13 (instances are isolated).  Two elements, each with its own     *)
(* operation history, are driven in one process in every interleaving TLC    *)
(* enumerates.  For every step:                                             *)
(*   C13_solo   the acting instance observes exactly what it observes when   *)
(*              its history runs alone on a fresh element                    *)
(*   C13_frame  the other instance's projection is unchanged by the step     *)
(* and a fixed probe battery over all element-content types gives the same   *)
(* digest in a pristine process, before and after everything else            *)
(* (C13_battery: a fresh element behaves identically whatever happened       *)
(* before).                                                                 *)
(***************************************************************************)
EXTENDS Naturals, Sequences, FiniteSets, Report, IOUtils
Trace == ndJsonDeserialize(IOEnv.TRACE_FILE)
StepVerdict(e) ==
  IF e.op = "pairstep"
  THEN (IF e.obs = e.solo THEN {} ELSE {"C13_solo"}) \cup (IF e.other_after = e.other_before THEN {} ELSE {"C13_frame"})
  ELSE (IF e.digest = e.ref THEN {} ELSE {"C13_battery"})
VARIABLES i, cnt
Init == i = 1 /\ cnt = [steps |-> 0, batteries |-> 0]
Next == /\ i <= Len(Trace)
        /\ LET e == Trace[i]  v == StepVerdict(e)
           IN /\ (IF v = {} THEN TRUE ELSE Report(<<"V", i, v>>))
              /\ cnt' = IF e.op = "pairstep" THEN [cnt EXCEPT !.steps = @ + 1] ELSE [cnt EXCEPT !.batteries = @ + 1]
        /\ i' = i + 1
Spec == Init /\ [][Next]_<<i, cnt>>
Done == (i = Len(Trace) + 1) => Report(<<"DONE", Len(Trace), cnt>>)
====
