---- MODULE ElementGen ----
(***************************************************************************)
(* GEN: TLC enumerates the environment's choices -- which public call      *)
(* next, with which child -- for one element type, and prints every        *)
(* maximal behaviour as JSON.  The replayer executes them on the real      *)
(* library.  The generator tracks the children the *specification* expects  *)
(* (an accepted un-forwarded add is exactly one whose bag stays             *)
(* completable) only to bound indices and to tag each step with the         *)
(* expected outcome for coverage accounting; the verdict is ElementTrace's. *)
(*                                                                         *)
(* Families (constant Family):                                              *)
(*   "uniform"  every operation sequence up to Depth                        *)
(*   "words"    every schema-valid word up to WordLen, children supplied in *)
(*              document order, then to_string              (C02)           *)
(*   "perms"    every ordering of every bag that has exactly one valid      *)
(*              arrangement, then to_string                 (C12)           *)
(*   "removal"  accepted adds, one removal, one probe, to_string (C11)      *)
(*   "afterfail" accepted adds, one refused call, any one operation, to_string (C10) *)
(*   "cover"    one shortest valid word through every follow edge of the    *)
(*              content model's automaton and every cycle taken twice, in  *)
(*              order, then to_string (C02)                                 *)
(*   "wordrem"  such a word, then one removal, then to_string (C11, C06)    *)
(*   "wordedit" a short such word, to_string, one edit (replace by another   *)
(*              name, remove, add), to_string (C01, C16: nothing remembered  *)
(*              from the first serialisation survives the edit)              *)
(*   "twoslot"  two children of one name placed in two different slots of   *)
(*              the content model (forward), the later slot first, then one *)
(*              shortcut / explicit operation on them, then to_string (C15)  *)
(***************************************************************************)
EXTENDS SchemaDerived, Report, Naturals, Sequences, FiniteSets

CONSTANTS Types,      \* complex type names handled by this run
          SigmaOf,    \* [type -> child names used] (subset of the type's alphabet)
          MultiOf,    \* [type -> names with more than one leaf in the particle tree] (forward is meaningful)
          RareSigmaOf,\* [type -> names used by the rare operations]
          RemSigmaOf, \* [type -> names used by the removal family]
          RemAddsOf,  \* [type -> number of accepted adds before the removal]
          Chks,       \* values of xsd_check to generate for
          Families,   \* subset of {"uniform","words","perms","removal"}
          DepthOf,    \* [type -> depth of the uniform / removal families]
          WordLenOf,  \* [type -> length bound of the words / perms families]
          MaxPerSym, MaxRare, PlanLen,
          PlanStrideOf, \* [type -> k]: the cover / wordrem families use every k-th follow edge (1 = all)
          Ops         \* subset of {"add","fwd","remove","replace","replacep","tostring","tostring_ic","dotelem","dotnone"}

NoFwd == 0 - 1

VARIABLES T, Chk, Family,   \* chosen in the initial state, constant afterwards
          ins,    \* names of the children the specification expects to be attached, insertion order
          hist,   \* the operations so far
          rare,   \* number of "rare" operations used (replace / forward / dot / intelligent choice)
          plan    \* family "cover": the valid word being supplied (<<>> otherwise)
vars == <<T, Chk, Family, ins, hist, rare, plan>>

A == ModelFor(T).A
P == ModelFor(T).P
FD == ModelFor(T).FD
Sigma == SigmaOf[T]
Multi == MultiOf[T]
RareSigma == RareSigmaOf[T]
RemSigma == RemSigmaOf[T]
RemAdds == RemAddsOf[T]
Depth == DepthOf[T]
WordLen == WordLenOf[T]

Count(s, a) == Cardinality({i \in DOMAIN s : s[i] = a})
Without(s, k) == [j \in 1..(Len(s) - 1) |-> IF j < k THEN s[j] ELSE s[j + 1]]
Subst(s, k, v) == [j \in DOMAIN s |-> IF j = k THEN v ELSE s[j]]
First(s, a) == CHOOSE j \in DOMAIN s : s[j] = a /\ \A k \in 1..(j - 1) : s[k] # a

\* forward = j addresses the j-th leaf named a of the content model's particle tree (document order)
LeafCount(a) == Cardinality({j \in DOMAIN LeavesFor(T) : LeavesFor(T)[j] = a})

ExpectAdd(a) == IF Chk THEN Ext(A, P, FD, Append(ins, a)) ELSE TRUE

\* the valid words supplied by the cover / wordrem families: one per follow edge, and every cycle taken twice,
\* bounded in length so that one pathological type cannot dominate
PlanWords(t) == LET M == ModelFor(t).A  st == PlanStrideOf[t]
                IN {x \in WordsOfPaths(M, EdgeCoverPathsS(M, st) \cup PumpPathsS(M, st)) : Len(x) <= PlanLen}

Init == /\ T \in Types /\ Chk \in Chks /\ Family \in Families
        /\ (Family \in {"perms", "removal", "afterfail", "wordrem", "wordedit", "twoslot"} => Chk)   \* valid words are also supplied to unchecked elements (C18: same bytes)
        /\ ins = <<>> /\ hist = <<>> /\ rare = 0
        /\ plan \in (IF Family \in {"cover", "wordrem"} THEN PlanWords(T)
                      ELSE IF Family = "wordedit" THEN {x \in PlanWords(T) : Len(x) <= 4} ELSE {<<>>})
Fixed == UNCHANGED <<T, Chk, Family, plan>>

AddOp(a, f) ==
  /\ (Family \in {"cover", "wordrem", "wordedit"} \/ Count(ins, a) < MaxPerSym \/ ~ExpectAdd(a))   \* one more than allowed is always offered
  /\ LET ok == ExpectAdd(a) IN
     /\ ins' = IF ok THEN Append(ins, a) ELSE ins
     /\ hist' = Append(hist, [op |-> "add", sym |-> a, fwd |-> f, idx |-> 0, ic |-> FALSE,
                             exp |-> IF f = NoFwd THEN (IF ok THEN "ok" ELSE "reject") ELSE "any"])
  /\ rare' = IF f = NoFwd THEN rare ELSE rare + 1
RemoveOp(i) ==
  /\ ins' = Without(ins, i)
  /\ hist' = Append(hist, [op |-> "remove", sym |-> "", fwd |-> NoFwd, idx |-> i, ic |-> FALSE, exp |-> "ok"])
  /\ UNCHANGED rare
\* replacing by a child of another name is accepted exactly when the resulting bag stays completable
ExpectReplace(i, a) == IF Chk THEN Ext(A, P, FD, Subst(ins, i, a)) ELSE TRUE
ReplaceOp(i, a) ==
  /\ ins' = IF ExpectReplace(i, a) THEN Subst(ins, i, a) ELSE ins
  /\ hist' = Append(hist, [op |-> "replace", sym |-> a, fwd |-> NoFwd, idx |-> i, ic |-> FALSE,
                          exp |-> IF ExpectReplace(i, a) THEN "any" ELSE "reject"])
  /\ rare' = rare + 1
\* the predicate form of replace_child (old given as a function that finds the child)
ReplacePOp(i, a) ==
  /\ ins' = IF ExpectReplace(i, a) THEN Subst(ins, i, a) ELSE ins
  /\ hist' = Append(hist, [op |-> "replacep", sym |-> a, fwd |-> NoFwd, idx |-> i, ic |-> FALSE,
                          exp |-> IF ExpectReplace(i, a) THEN "any" ELSE "reject"])
  /\ rare' = rare + 1
ToStr(ic) ==
  /\ UNCHANGED ins
  /\ hist' = Append(hist, [op |-> "tostring", sym |-> "", fwd |-> NoFwd, idx |-> 0, ic |-> ic,
                          exp |-> IF ~Chk \/ Accepts(A, ins) THEN "maybe-ok" ELSE "any"])
  /\ rare' = IF ic THEN rare + 1 ELSE rare
\* a final check the specification expects to FAIL: no arrangement of the children is a word of the content model
ToStrRej ==
  /\ Chk /\ Arrangements(A, ins) = {}
  /\ UNCHANGED <<ins, rare>>
  /\ hist' = Append(hist, [op |-> "tostring", sym |-> "", fwd |-> NoFwd, idx |-> 0, ic |-> FALSE, exp |-> "reject"])
DotElem(a) ==
  /\ IF Count(ins, a) > 0 THEN ins' = ins
     ELSE ins' = IF ExpectAdd(a) THEN Append(ins, a) ELSE ins
  /\ hist' = Append(hist, [op |-> "dotelem", sym |-> a, fwd |-> NoFwd, idx |-> 0, ic |-> FALSE,
                          exp |-> IF Count(ins, a) = 0 /\ ~ExpectAdd(a) THEN "reject" ELSE "any"])
  /\ rare' = rare + 1
DotNone(a) ==
  /\ ins' = IF Count(ins, a) > 0 THEN Without(ins, First(ins, a)) ELSE ins
  /\ hist' = Append(hist, [op |-> "dotnone", sym |-> a, fwd |-> NoFwd, idx |-> 0, ic |-> FALSE, exp |-> "ok"])
  /\ rare' = rare + 1

RareOK == rare < MaxRare

Uniform ==
  /\ Len(hist) < Depth
  /\ \/ ("add" \in Ops /\ \E a \in Sigma : AddOp(a, NoFwd))
     \/ ("fwd" \in Ops /\ RareOK /\ \E a \in Multi : \E f \in 0..(LeafCount(a) - 1) : f <= 2 /\ AddOp(a, f))
     \/ ("remove" \in Ops /\ \E i \in DOMAIN ins : RemoveOp(i))
     \/ ("replace" \in Ops /\ RareOK /\ \E i \in DOMAIN ins : \E a \in RareSigma \cup {ins[i]} : ReplaceOp(i, a))
     \/ ("replacep" \in Ops /\ RareOK /\ \E i \in DOMAIN ins : ReplacePOp(i, ins[i]))
     \/ ("tostring" \in Ops /\ ToStr(FALSE))
     \/ ("tostring_ic" \in Ops /\ RareOK /\ ToStr(TRUE))
     \/ ("dotelem" \in Ops /\ RareOK /\ \E a \in RareSigma : DotElem(a))
     \/ ("dotnone" \in Ops /\ RareOK /\ \E a \in RareSigma : DotNone(a))

\* valid words in document order: extend while the prefix stays viable; close with to_string when accepted
Ended == Len(hist) > 0 /\ hist[Len(hist)].op = "tostring"
Words ==
  /\ ~Ended
  /\ \/ /\ Len(ins) < WordLen
        /\ \E a \in Sigma : ViablePrefix(A, Append(ins, a)) /\ AddOp(a, NoFwd)
     \/ (Accepts(A, ins) /\ ToStr(FALSE))

\* orderings of uniquely arrangeable bags: any next child that keeps the bag completable
Perms ==
  /\ ~Ended
  /\ \/ /\ Len(ins) < WordLen
        /\ \E a \in Sigma : ExpectAdd(a) /\ AddOp(a, NoFwd)
     \/ (Len(ins) > 0 /\ UniqueArr(A, ins) /\ ToStr(FALSE))

\* cover: one shortest valid word through every follow edge of the automaton, supplied in order
Cover ==
  /\ ~Ended
  /\ IF Len(hist) < Len(plan) THEN AddOp(plan[Len(hist) + 1], NoFwd) ELSE ToStr(FALSE)

\* wordrem: a valid word supplied in order, then one removal (any child), then to_string   (C11 / C06 on documents
\* as users build them: complete, then edited)
WordRem ==
  /\ ~Ended
  /\ IF Len(hist) < Len(plan) THEN AddOp(plan[Len(hist) + 1], NoFwd)
     ELSE IF Len(hist) = Len(plan) THEN \E i \in DOMAIN ins : RemoveOp(i)
     ELSE ToStr(FALSE)

\* wordedit: a short valid word supplied in order and serialised, then ONE edit -- a child replaced by one of another
\* name, a child removed, a child added --, then to_string again: the second serialisation is judged like any other
\* (C01: what it returns is valid) and against the same history without the first one (C16)
WordEdit ==
  IF Len(hist) < Len(plan) THEN AddOp(plan[Len(hist) + 1], NoFwd)
  ELSE IF Len(hist) = Len(plan) THEN ToStr(FALSE)
  ELSE IF Len(hist) = Len(plan) + 1
       THEN \/ \E i \in DOMAIN ins : \E a \in RareSigma \ {ins[i]} : ReplaceOp(i, a)
            \/ \E i \in DOMAIN ins : RemoveOp(i)
            \/ \E a \in RareSigma : AddOp(a, NoFwd)
       ELSE Len(hist) = Len(plan) + 2 /\ ToStr(FALSE)

\* removal: up to RemAdds accepted adds (names of RemSigma), then exactly one removal, then one probe
Removed == \E j \in DOMAIN hist : hist[j].op = "remove"
Removal ==
  IF ~Removed
  THEN \/ (Len(hist) < RemAdds /\ \E a \in RemSigma : ExpectAdd(a) /\ AddOp(a, NoFwd))
       \/ (\E i \in DOMAIN ins : RemoveOp(i))
  ELSE IF hist[Len(hist)].op = "remove"
       THEN \/ (\E a \in RemSigma : AddOp(a, NoFwd))
            \/ ToStr(FALSE)
       ELSE hist[Len(hist)].op = "add" /\ hist[Len(hist) - 1].op = "remove" /\ ToStr(FALSE)   \* and what it serialises to

\* afterfail: up to two accepted adds, then one call the specification expects to be REFUSED (an add, a
\* replace_child by another name, a dot assignment, a to_string of children that cannot be arranged into a valid
\* word), then any one operation (after a refused to_string: an add of any name), then to_string  (C10: what follows a
\* failed call behaves as if it had never been made -- including a second replace / remove of an untouched child)
Failed == \E j \in DOMAIN hist : hist[j].exp = "reject"
FailIdx == CHOOSE j \in DOMAIN hist : hist[j].exp = "reject" /\ \A k \in 1..(j - 1) : hist[k].exp # "reject"
AfterFail ==
  IF ~Failed
  THEN \/ (Len(hist) < 2 /\ \E a \in Sigma : ExpectAdd(a) /\ AddOp(a, NoFwd))
       \/ (Len(hist) >= 1 /\ \E a \in Sigma : ~ExpectAdd(a) /\ AddOp(a, NoFwd))
       \/ (\E i \in DOMAIN ins : \E a \in RareSigma : ~ExpectReplace(i, a) /\ ReplaceOp(i, a))
       \/ (Len(hist) >= 1 /\ \E a \in RareSigma : Count(ins, a) = 0 /\ ~ExpectAdd(a) /\ DotElem(a))
       \/ (Len(hist) >= 1 /\ ToStrRej)
  ELSE IF Len(hist) = FailIdx           \* exactly one operation of any kind right after the refused call
  THEN \/ (\E a \in (IF hist[FailIdx].op = "tostring" THEN Sigma ELSE RareSigma) : AddOp(a, NoFwd))
       \/ (\E i \in DOMAIN ins : \E a \in RareSigma \cup {ins[i]} : ReplaceOp(i, a))      \* incl. a same-name replace of every child
       \/ (\E i \in DOMAIN ins : RemoveOp(i))
       \/ (\E a \in RareSigma : DotElem(a))
       \/ (\E a \in RareSigma : DotNone(a))
       \/ ToStr(FALSE)
  ELSE Len(hist) = FailIdx + 1 /\ hist[Len(hist)].op # "tostring" /\ ToStr(FALSE)

\* twoslot: two children of one name in two different slots (the first call forwards), then one operation that
\* addresses "the child of that name" -- a dot assignment of an element or of None, an explicit replace / remove of
\* either child -- then to_string.  The shortcut and the explicit call must pick the same child (C15).
TwoSlot ==
  /\ ~Ended
  /\ IF Len(hist) = 0 THEN \E a \in Multi : \E f \in 0..(LeafCount(a) - 1) : AddOp(a, f)
     ELSE LET a == hist[1].sym IN
          IF Len(hist) = 1 THEN \/ AddOp(a, NoFwd)
                                \/ \E f \in 0..(LeafCount(a) - 1) : f # hist[1].fwd /\ AddOp(a, f)
          ELSE IF Len(hist) = 2 THEN \/ DotElem(a) \/ DotNone(a) \/ ToStr(FALSE)
                                     \/ \E i \in DOMAIN ins : RemoveOp(i)
                                     \/ \E i \in DOMAIN ins : ReplaceOp(i, a)
          ELSE ToStr(FALSE)

Next == /\ Fixed
        /\ CASE Family = "uniform" -> Uniform
             [] Family = "words" -> Words
             [] Family = "perms" -> Perms
             [] Family = "removal" -> Removal
             [] Family = "cover" -> Cover
             [] Family = "afterfail" -> AfterFail
             [] Family = "wordrem" -> WordRem
             [] Family = "twoslot" -> TwoSlot
             [] Family = "wordedit" -> WordEdit
Spec == Init /\ [][Next]_vars

\* a behaviour is emitted at the leaves of the exploration (interior nodes are prefixes of leaves)
Leaf == CASE Family = "uniform" -> Len(hist) = Depth
          [] Family = "words" -> Ended
          [] Family = "perms" -> Ended
          [] Family = "removal" -> Removed /\ Ended
          [] Family = "cover" -> Ended
          [] Family = "wordrem" -> Ended
          [] Family = "twoslot" -> Ended
          [] Family = "wordedit" -> Len(hist) = Len(plan) + 3
          [] Family = "afterfail" -> Failed /\ Len(hist) > FailIdx /\ (Ended \/ Len(hist) = FailIdx + 2)
Emit == Leaf => Report([type |-> T, chk |-> Chk, fam |-> Family, ops |-> hist])
====
