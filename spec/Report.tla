---- MODULE Report ----
(* Verdicts are printed, one JSON value per line, prefixed so that the harness can tell them from *)
(* anything else TLC prints.  The harness collects them; it does not re-judge them.              *)
EXTENDS TLC, Json, Sequences
Report(x) == PrintT("@@" \o ToJson(x))
RECURSIVE ReportAll(_)
ReportAll(S) == IF S = {} THEN TRUE ELSE LET x == CHOOSE y \in S : TRUE IN Report(x) /\ ReportAll(S \ {x})
====
