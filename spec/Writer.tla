---- MODULE Writer ----
(***************************************************************************)
(* The write(path) protocol of XMLScorePartwise (C17).                      *)
(*                                                                         *)
(* Abstract effects: Validate (the final checks walk the tree; any node may *)
(* be the failing one), Open (creates / truncates the destination; may      *)
(* itself fail, e.g. read-only directory), WriteDecl, WriteBody, Close,     *)
(* Raise.  The order in which the *implementation* performs them is the     *)
(* constant Design:                                                         *)
(*    "validate-first"  text := to_string(); open; decl; body; close        *)
(*    "open-first"      open; decl; to_string(); body; close   (the code    *)
(*                      as it was before the repair)                        *)
(*    "check-open-serialise"  final checks; open; decl; serialise; body;    *)
(*                      close  (validation first, but the text is produced  *)
(*                      after the file was truncated)                       *)
(* to_string() = Validate (final checks) followed by Serialise (building    *)
(* the text), and either can raise.                                         *)
(* file = <<>> means "absent"; otherwise a sequence of abstract chunks.     *)
(* TLC checks AllOrNothing and Declared for every failing node, every prior *)
(* file state and an Open that may fail; "open-first" violates AllOrNothing *)
(* (kept as a negative control in the setup).                               *)
(***************************************************************************)
EXTENDS Naturals, Sequences, FiniteSets, WriterEffects

CONSTANTS Design,     \* "validate-first" | "open-first"
          Nodes,      \* 1..N: nodes of the document in the order the final check visits them
          PriorStates \* set of prior file contents, e.g. {<<>>, <<"old">>}

VARIABLES pc, file, file0, failing, openFails, serFails, visited, text, raised, returned,
          eff      \* history: the externally visible effects so far (what a recorder around open/write/to_string sees)
vars == <<pc, file, file0, failing, openFails, serFails, visited, text, raised, returned, eff>>

Absent == <<>>
Init == /\ pc = "start"
        /\ file0 \in PriorStates /\ file = file0
        /\ failing \in Nodes \cup {0}          \* 0: the document is complete
        /\ openFails \in BOOLEAN
        /\ serFails \in BOOLEAN               \* building the text raises although every check passed
        /\ visited = 0 /\ text = "" /\ raised = FALSE /\ returned = FALSE /\ eff = <<>>

\* the final check visits node visited+1; it raises at the failing node
ValidateStep ==
  /\ pc = "validate"
  /\ IF visited + 1 = failing
     THEN /\ pc' = "raised" /\ raised' = TRUE /\ UNCHANGED <<visited, text>>
          /\ eff' = Append(eff, "validate-raise")
     ELSE IF visited + 1 > Cardinality(Nodes)
          THEN /\ UNCHANGED <<visited, raised, text>>
               /\ pc' = IF Design = "check-open-serialise" THEN "open" ELSE "serialise"
               /\ eff' = Append(eff, "validate")
          ELSE /\ visited' = visited + 1 /\ UNCHANGED <<text, raised, pc, eff>>
  /\ UNCHANGED <<file, file0, failing, openFails, serFails, returned>>

Serialise ==
  /\ pc = "serialise"
  /\ IF serFails
     THEN /\ pc' = "raised" /\ raised' = TRUE /\ eff' = Append(eff, "serialise-raise") /\ UNCHANGED text
     ELSE /\ text' = "doc" /\ UNCHANGED raised /\ eff' = Append(eff, "serialise")
          /\ pc' = IF Design = "validate-first" THEN "open" ELSE "body"
  /\ UNCHANGED <<file, file0, failing, openFails, serFails, visited, returned>>

Start == /\ pc = "start"
         /\ pc' = IF Design = "open-first" THEN "open" ELSE "validate"
         /\ UNCHANGED <<file, file0, failing, openFails, serFails, visited, text, raised, returned, eff>>

Open == /\ pc = "open"
        /\ IF openFails
           THEN /\ pc' = "raised" /\ raised' = TRUE /\ UNCHANGED file /\ eff' = Append(eff, "open-raise")
           ELSE /\ file' = <<"">>                    \* created / truncated: present and empty
                /\ pc' = "decl" /\ UNCHANGED raised /\ eff' = Append(eff, "open")
        /\ UNCHANGED <<file0, failing, openFails, serFails, visited, text, returned>>

WriteDecl == /\ pc = "decl"
             /\ file' = <<"decl">>
             /\ pc' = IF Design = "validate-first" THEN "body" ELSE IF Design = "open-first" THEN "validate" ELSE "serialise"
             /\ eff' = Append(eff, "decl")
             /\ UNCHANGED <<file0, failing, openFails, serFails, visited, text, raised, returned>>

WriteBody == /\ pc = "body"
             /\ file' = Append(file, text)
             /\ pc' = "close" /\ eff' = Append(eff, "body")
             /\ UNCHANGED <<file0, failing, openFails, serFails, visited, text, raised, returned>>

Close == /\ pc = "close"
         /\ pc' = "done" /\ returned' = TRUE /\ eff' = Append(eff, "close")
         /\ UNCHANGED <<file, file0, failing, openFails, serFails, visited, text, raised>>

Next == Start \/ ValidateStep \/ Serialise \/ Open \/ WriteDecl \/ WriteBody \/ Close
Spec == Init /\ [][Next]_vars

TypeOK == pc \in {"start", "validate", "serialise", "open", "decl", "body", "close", "done", "raised"}
\* C17: if write raises, the previous content of path is untouched
AllOrNothing == raised => file = file0
\* C17: when it returns, the file holds the declaration followed by exactly to_string()
Declared == returned => file = <<"decl", "doc">>
EffectsAgree == pc \in {"done", "raised"} => eff = EffectsOf(Design, failing # 0, serFails, openFails)
\* non-vacuity: both endings are reachable (checked as "never" invariants that TLC must violate)
NeverRaises == ~raised
NeverReturns == ~returned
====
