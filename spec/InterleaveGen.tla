---- MODULE InterleaveGen ----
(* GEN for C13: every interleaving of two per-instance histories of lengths LA and LB, as a sequence over {1, 2}. *)
EXTENDS Naturals, Sequences, FiniteSets, Report
CONSTANTS LA, LB
VARIABLE s
Count(x) == Cardinality({i \in DOMAIN s : s[i] = x})
Init == s = <<>>
Next == \/ (Count(1) < LA /\ s' = Append(s, 1))
        \/ (Count(2) < LB /\ s' = Append(s, 2))
Spec == Init /\ [][Next]_s
Emit == (Len(s) = LA + LB) => Report(s)
====
