---- MODULE Document ----
(***************************************************************************)
(* Documents as infosets and the relations C08 / C09 / C13 / C14 state      *)
(* about them.                                                              *)
(*   node == [n |-> element name, a |-> sequence of <<attribute name, code  *)
(*            points>> (sorted), t |-> code points of the element's own     *)
(*            text, c |-> sequence of child nodes]                          *)
(* as a standard XML parser reads a serialisation (tails, comments and PIs  *)
(* are not content).  Which positions are decimal-typed, integer-typed,      *)
(* white-space-collapsing or element-only comes from Schema.                *)
(***************************************************************************)
EXTENDS Lexical, Naturals, Sequences, FiniteSets

Known(n) == n \in DOMAIN ElemType
IsComplex(n) == Known(n) /\ ElemKind[n] = "complex"
TextType(n) == IF ~Known(n) THEN "" ELSE IF IsComplex(n) THEN SimpleBase[ElemType[n]] ELSE ElemType[n]
ElementOnly(n) == IsComplex(n) /\ HasText[ElemType[n]] \in {"elements", "empty"}
AttrTypeOf(n, a) == IF IsComplex(n) /\ (\E d \in AttrDecl[ElemType[n]] : d.name = a)
                    THEN (CHOOSE d \in AttrDecl[ElemType[n]] : d.name = a).type ELSE ""

RECURSIVE TypeLeaves(_)
TypeLeaves(tn) == IF ST[tn].union # <<>> THEN UNION {TypeLeaves(ST[tn].union[i]) : i \in DOMAIN ST[tn].union} ELSE {tn}
\* decimal spelling may change (4 vs 4.0) only where the schema type is a non-integer decimal
AllowsRespelling(tn) == tn # "" /\ \E l \in TypeLeaves(tn) : ST[l].prim = "decimal" /\ ~ST[l].int
Collapses(tn) == tn # "" /\ \A l \in TypeLeaves(tn) : ST[l].ws = "collapse"

RECURSIVE StripTrailingZeros(_)
StripTrailingZeros(d) == IF d # <<>> /\ d[Len(d)] = 48 THEN StripTrailingZeros(SubSeq(d, 1, Len(d) - 1)) ELSE d
DecimalEq(x0, y0) ==
  LET x == Collapse(x0)  y == Collapse(y0) IN
  /\ IsDecimalLex(x) /\ IsDecimalLex(y)
  /\ StripZeros(IntPart(x)) = StripZeros(IntPart(y))
  /\ StripTrailingZeros(FracPart(x)) = StripTrailingZeros(FracPart(y))
  /\ (Negative(x) <=> Negative(y))

\* two spellings of one value at a position of simple type tn ("" = untyped: must be identical)
SameValue(tn, x, y) ==
  \/ x = y
  \/ (Collapses(tn) /\ Collapse(x) = Collapse(y))                 \* insignificant white space
  \/ (AllowsRespelling(tn) /\ DecimalEq(x, y))

AllWS(s) == \A i \in DOMAIN s : IsWS(s[i])
AttrNames(nd) == {nd.a[i][1] : i \in DOMAIN nd.a}
AttrVal(nd, a) == nd.a[CHOOSE i \in DOMAIN nd.a : nd.a[i][1] = a][2]

\* same elements, order, attributes and text, up to the permitted spellings
RECURSIVE Equiv(_, _)
Equiv(x, y) ==
  /\ x.n = y.n
  /\ AttrNames(x) = AttrNames(y)
  /\ \A a \in AttrNames(x) : SameValue(AttrTypeOf(x.n, a), AttrVal(x, a), AttrVal(y, a))
  /\ (IF ElementOnly(x.n) THEN (AllWS(x.t) <=> AllWS(y.t)) /\ (~AllWS(x.t) => x.t = y.t)
      ELSE SameValue(TextType(x.n), x.t, y.t))
  /\ Len(x.c) = Len(y.c)
  /\ \A i \in DOMAIN x.c : Equiv(x.c[i], y.c[i])

RECURSIVE Size(_)
Size(x) == 1 + (IF x.c = <<>> THEN 0 ELSE LET RECURSIVE Sum(_) Sum(i) == IF i > Len(x.c) THEN 0 ELSE Size(x.c[i]) + Sum(i + 1) IN Sum(1))
====
