---- MODULE LexicalTest ----
(* Hand-written examples guarding Lexical.tla (checked by TLC as ASSUMEs at start-up; run by setup). *)
EXTENDS Lexical, TLC
S(str) == str   \* placeholder so examples read naturally; code points are written out below
\* "12" = <<49,50>>  "-1.50" = <<45,49,46,53,48>>  "1e-05" = <<49,101,45,48,53>>
ASSUME InLex("xs:decimal", <<49, 50>>)
ASSUME InLex("xs:decimal", <<45, 49, 46, 53, 48>>)
ASSUME InLex("xs:decimal", <<46, 53>>)               \* ".5"
ASSUME InLex("xs:decimal", <<53, 46>>)               \* "5."
ASSUME InLex("xs:decimal", <<32, 53, 32>>)           \* " 5 " (collapse)
ASSUME ~InLex("xs:decimal", <<49, 101, 45, 48, 53>>) \* "1e-05"
ASSUME ~InLex("xs:decimal", <<110, 97, 110>>)        \* "nan"
ASSUME ~InLex("xs:decimal", <<>>)
ASSUME ~InLex("xs:decimal", <<46>>)
ASSUME ~InLex("xs:integer", <<49, 46, 48>>)          \* "1.0"
ASSUME InLex("xs:integer", <<43, 48, 48, 55>>)       \* "+007"
ASSUME InLex("xs:positiveInteger", <<49>>)
ASSUME ~InLex("xs:positiveInteger", <<48>>)
ASSUME ~InLex("xs:positiveInteger", <<45, 49>>)
ASSUME InLex("xs:nonNegativeInteger", <<48>>)
ASSUME InLex("xs:nonNegativeInteger", <<45, 48>>)    \* "-0"
ASSUME InLex("percent", <<49, 48, 48>>)              \* 100
ASSUME InLex("percent", <<49, 48, 48, 46, 48>>)      \* 100.0
ASSUME ~InLex("percent", <<49, 48, 48, 46, 48, 49>>) \* 100.01
ASSUME ~InLex("percent", <<45, 48, 46, 49>>)         \* -0.1
ASSUME InLex("rotation-degrees", <<45, 49, 56, 48>>) \* -180
ASSUME ~InLex("rotation-degrees", <<45, 49, 56, 48, 46, 53>>)  \* -180.5
ASSUME ~InLex("positive-divisions", <<48>>)
ASSUME InLex("positive-divisions", <<48, 46, 48, 49>>)         \* 0.01
ASSUME InLex("divisions", <<49, 50, 51, 52, 53, 54, 55, 56, 57, 48, 49, 50>>)  \* huge
ASSUME ~InLex("midi-16", <<49, 50, 51, 52, 53, 54, 55, 56, 57, 48, 49, 50>>)
ASSUME InLex("yes-no", <<121, 101, 115>>)
ASSUME ~InLex("yes-no", <<89, 101, 115>>)
ASSUME InLex("yes-no", <<32, 110, 111, 10>>)         \* " no\n" collapses (token)
ASSUME InLex("color", <<35, 70, 70, 48, 48, 65, 65>>)
ASSUME ~InLex("color", <<35, 70, 70, 48, 48, 65>>)
ASSUME ~InLex("color", <<35, 102, 102, 48, 48, 97, 97>>)       \* lower case
ASSUME InLex("xs:date", <<50, 48, 50, 52, 45, 48, 50, 45, 50, 57>>)   \* 2024-02-29
ASSUME ~InLex("xs:date", <<50, 48, 50, 51, 45, 48, 50, 45, 50, 57>>)  \* 2023-02-29
ASSUME InLex("xs:date", <<50, 48, 50, 51, 45, 48, 50, 45, 50, 56, 90>>)   \* ...Z
ASSUME InLex("xs:date", <<49, 48, 48, 48, 48, 45, 48, 49, 45, 48, 49>>)   \* 10000-01-01
ASSUME InLex("xs:date", <<49, 50, 48, 50, 52, 45, 48, 50, 45, 50, 57>>)   \* 12024-02-29
ASSUME ~InLex("xs:date", <<49, 50, 48, 50, 51, 45, 48, 50, 45, 50, 57>>)   \* 12023-02-29
ASSUME ~InLex("xs:date", <<48, 50, 48, 50, 52, 45, 48, 50, 45, 50, 57>>)   \* 02024-02-29
ASSUME ~InLex("xs:date", <<48, 48, 48, 48, 45, 48, 49, 45, 48, 49>>)   \* 0000-01-01
ASSUME InLex("xs:date", <<45, 49, 48, 48, 48, 48, 45, 48, 54, 45, 51, 48>>)   \* -10000-06-30
ASSUME ~InLex("xs:date", <<49, 57, 48, 48, 45, 48, 50, 45, 50, 57>>)   \* 1900-02-29
ASSUME InLex("xs:date", <<50, 48, 48, 48, 45, 48, 50, 45, 50, 57>>)   \* 2000-02-29
ASSUME InLex("xs:date", <<49, 48, 48, 48, 48, 45, 48, 49, 45, 48, 49, 90>>)   \* 10000-01-01Z
ASSUME ~InLex("xs:date", <<50, 48, 50, 45, 48, 49, 45, 48, 49>>)   \* 202-01-01
ASSUME ~InLex("yyyy-mm-dd", <<50, 48, 50, 51, 45, 48, 50, 45, 50, 56, 90>>)
ASSUME InLex("yyyy-mm-dd", <<50, 48, 50, 51, 45, 48, 50, 45, 50, 56>>)
ASSUME InLex("number-or-normal", <<110, 111, 114, 109, 97, 108>>)
ASSUME InLex("number-or-normal", <<49, 46, 53>>)
ASSUME ~InLex("number-or-normal", <<120>>)
ASSUME InLex("positive-integer-or-empty", <<>>)
ASSUME InLex("font-size", <<120, 120, 45, 115, 109, 97, 108, 108>>)   \* xx-small
ASSUME InLex("xs:NMTOKEN", <<97, 45, 49>>)
ASSUME ~InLex("xs:NMTOKEN", <<97, 32, 98>>)
ASSUME InLex("xs:ID", <<97, 49>>)
ASSUME ~InLex("xs:ID", <<49, 97>>)
ASSUME ~InLex("xs:ID", <<97, 58, 98>>)                \* colon
ASSUME InLex("xs:language", <<101, 110, 45, 85, 83>>)
ASSUME ~InLex("xs:language", <<101>>)
ASSUME InLex("comma-separated-text", <<97, 44, 32, 98>>)
ASSUME ~InLex("comma-separated-text", <<97, 44, 44, 98>>)
ASSUME InLex("time-only", <<49, 44, 32, 50>>)
ASSUME ~InLex("time-only", <<48>>)
ASSUME InLex("smufl-glyph-name", <<97, 98>>)
ASSUME InLex("smufl-coda-glyph-name", <<99, 111, 100, 97>>)
ASSUME ~InLex("smufl-coda-glyph-name", <<99, 111, 100>>)
ASSUME InLex("measure-text", <<120>>)
ASSUME ~InLex("measure-text", <<>>)
ASSUME InLex("xs:string", <<32, 32>>)
ASSUME Normalize("collapse", <<32, 97, 9, 10, 98, 32>>) = <<97, 32, 98>>
VARIABLE x
Init == x = 0
Next == UNCHANGED x
====
