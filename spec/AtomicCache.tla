---- MODULE AtomicCache ----
(* The abstract cache that LazyInit must refine: a call returns the complete table in one atomic step, so what a *)
(* thread obtains never depends on the interleaving.                                                            *)
EXTENDS Naturals, Sequences
CONSTANTS Threads, Goal, Full(_), Unset
VARIABLE answered
Init == answered = [t \in Threads |-> Unset]
Answer(t) == answered[t] = Unset /\ answered' = [answered EXCEPT ![t] = Full(Goal[t])]
Next == \E t \in Threads : Answer(t)
Spec == Init /\ [][Next]_answered
====
