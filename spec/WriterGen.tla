---- MODULE WriterGen ----
(* GEN for C17: every fault scenario of write() -- which node of the document fails its final check (0 = none), *)
(* the prior state of the destination, intelligent_choice -- enumerated by TLC and replayed by harness/writer_replay.py *)
(* under every default text encoding. *)
EXTENDS Naturals, Report
CONSTANTS NFaults      \* number of fault points the harness document offers
VARIABLES fail, prior, ic
Init == /\ fail \in 0..NFaults
        /\ prior \in {"absent", "empty", "other", "longer", "isdir"}
        /\ ic \in BOOLEAN
Next == UNCHANGED <<fail, prior, ic>>
Spec == Init /\ [][Next]_<<fail, prior, ic>>
Emit == Report([fail |-> fail, prior |-> prior, ic |-> ic])
====
