---- MODULE SchemaDerived ----
(* Constant-level tables derived from Schema once per TLC run (TLC evaluates them at start-up). *)
EXTENDS Schema, Regular
ModelOf == [t \in CMTypes |-> [A |-> CM[t], P |-> Plus(CM[t]), FD |-> FirstDown(CM[t])]]
====
