---- MODULE SchemaDerived ----
(* Constant-level tables derived from Schema once per TLC run (TLC evaluates them at start-up). *)
EXTENDS Schema, Regular
ModelOf == [t \in CMTypes |-> [A |-> CM[t], P |-> Plus(CM[t]), FD |-> FirstDown(CM[t])]]
\* element classes without element content (simple types, simple content, empty types): the language is {<<>>}, every
\* child must be refused by a checked element
EmptyAutomaton == [lab |-> <<>>, first |-> {}, last |-> {}, nullable |-> TRUE, follow |-> <<>>]
EmptyModel == [A |-> EmptyAutomaton, P |-> <<>>, FD |-> {}]
ModelFor(t) == IF t \in CMTypes THEN ModelOf[t] ELSE EmptyModel
LeavesFor(t) == IF t \in DOMAIN Leaves THEN Leaves[t] ELSE <<>>
====
