"""replay_values.py -- offers TLC-generated value tokens at every attribute / text slot of the given element
classes on the real library and records one event per public call (see Values.tla for the clauses).

Runs inside the implementation process.  argv: jobs.json out.ndjson
jobs.json = {"elems": [element names], "tokens": {simple type: [tok, ...]}, "full": [elements that get every
token], "reduced": n}   (elements not in "full" get the first n tokens of each slot -- a driver-side choice of inputs)
"""
import sys, os, io, json, math, contextlib, traceback
import xml.etree.ElementTree as ET

HERE = os.path.dirname(os.path.abspath(__file__))
sys.path.insert(0, HERE)
import mk as MK

NS = {'http://www.w3.org/XML/1998/namespace': 'xml', 'http://www.w3.org/1999/xlink': 'xlink'}


def cps(s):
    return [ord(c) for c in s]


def pyvalue(tok):
    k = tok['kind']
    if k == 'none':
        return None
    s = ''.join(chr(c) for c in tok['s'])
    if k == 'str':
        return s
    if k == 'int':
        return int(s)
    if k == 'float':
        return float('%de%d' % (tok['m'], tok['e']))
    if k == 'special':
        return {'nan': float('nan'), 'inf': float('inf'), '-inf': float('-inf'), 'True': True, 'False': False}[s]
    raise ValueError(k)


def logtok(tok, v):
    """token as logged: numbers carry the code points of Python's str(value)"""
    if tok['kind'] in ('float',):
        return dict(kind='float', s=cps(str(v)))
    return dict(kind=tok['kind'], s=list(tok['s']))


class Rec:
    def __init__(self, F, out):
        self.F = F
        self.out = out
        self.bo = io.StringIO()
        self.be = io.StringIO()

    def state(self, e):
        return dict(attrs=sorted([[str(k), repr(v)] for k, v in e.attributes.items()]), val=repr(e.value_))

    def call(self, fn):
        o0, e0 = self.bo.tell(), self.be.tell()
        res = dict(ok=True, exc='', mro=[], nonemsg=False, where='')
        ret = None
        try:
            with contextlib.redirect_stdout(self.bo), contextlib.redirect_stderr(self.be):
                ret = fn()
        except Exception as ex:  # noqa
            tb = traceback.extract_tb(ex.__traceback__)
            where = ''
            for fr in reversed(tb):
                if '/musicxml/' in fr.filename:
                    where = fr.name
                    break
            res = dict(ok=False, exc=type(ex).__name__, mro=[c.__name__ for c in type(ex).__mro__],
                       nonemsg='NoneType' in str(ex), where=where)
        res['out'] = self.bo.tell() - o0
        res['err'] = self.be.tell() - e0
        return res, ret

    def emit(self, **kw):
        kw['id'] = len(self.out) + 1
        kw.setdefault('parent', 0)
        kw.setdefault('name', '')
        kw.setdefault('tok', dict(kind='none', s=[]))
        kw.setdefault('em', dict(attrs=[], text=[]))
        kw.setdefault('got', '')
        kw.setdefault('present', False)
        kw.setdefault('tw15', 0)
        kw.setdefault('complete', True)
        kw.setdefault('expect', dict(attrs=[], hasText=False, text=[]))
        kw.setdefault('stored', dict(isstr=False, s=[]))
        self.out.append(kw)
        return kw['id']


def emitted(text):
    root = ET.fromstring(text)
    attrs = []
    for k, v in root.attrib.items():
        if k.startswith('{'):
            ns, local = k[1:].split('}')
            k = NS.get(ns, ns) + ':' + local
        attrs.append([k, cps(v)])
    return dict(attrs=sorted(attrs), text=cps(root.text or ''))


def run_elem(R, J, name, tokens, full, reduced):
    F = R.F
    t = J['elemtype'][name]
    kind = J['elemkind'][name]
    ct = t if kind == 'complex' else ''
    if kind == 'complex':
        st = J['sbase'][t]
        ht = J['hastext'][t]
        decl = J['attrs'][t]
    else:
        st, ht, decl = t, 'text', []
    base = dict(elem=name, ctype=ct, stype=st, ht=ht)
    try:
        F.mk(name)
        lenient = False
    except MK.Unconstructible:
        lenient = True

    def fresh():
        return F.mk(name, lenient=True)

    def new_event(e):
        s = R.state(e)
        return R.emit(op='new', surface='', res=dict(ok=True, exc='', mro=[], nonemsg=False, where='', out=0, err=0),
                      pre=s, post=s, complete=not lenient, **base)

    def tostring(e, parent):
        pre = R.state(e)
        res, text = R.call(lambda: e.to_string())
        em = dict(attrs=[], text=[])
        if res['ok']:
            try:
                em = emitted(text)
            except Exception:  # noqa
                em = dict(attrs=[['!unparsable', []]], text=[])
        expect = dict(attrs=sorted([[str(k), cps(v)] for k, v in e.attributes.items() if isinstance(v, str)]),
                      hasText=isinstance(e.value_, str) and kind == 'simple' or (isinstance(e.value_, str) and e.value_ != '' and st != ''),
                      text=cps(e.value_) if isinstance(e.value_, str) else [])
        return R.emit(op='tostring', surface='', res=res, pre=pre, post=R.state(e), em=em, parent=parent,
                      complete=not lenient, expect=expect, **base)

    def setattr_dot(e, py, tok, parent):
        v = pyvalue(tok)
        pre = R.state(e)
        res, _ = R.call(lambda: setattr(e, py, v))
        sv = e.attributes.get(py.replace('_', '-'))        # projection: the string the element now holds for that name
        return R.emit(op='unset' if tok['kind'] == 'none' else 'setattr', surface='dot', name=py.replace('_', '-'),
                      tok=logtok(tok, v), res=res, pre=pre, post=R.state(e), parent=parent,
                      stored=dict(isstr=isinstance(sv, str), s=cps(sv) if isinstance(sv, str) else []), **base)

    def get(e, py, parent):
        pre = R.state(e)
        res, ret = R.call(lambda: getattr(e, py))
        got = 'error' if not res['ok'] else ('none' if ret is None else 'value')
        present = py.replace('_', '-') in e.attributes
        return R.emit(op='get', surface='dot', name=py.replace('_', '-'), res=res, pre=pre, post=R.state(e),
                      got=got, present=present, parent=parent, **base)

    def new_kw(py, tok, twin):
        """constructor keyword surface: judged like an assignment on a fresh element"""
        v = pyvalue(tok)
        cls, value, kwargs, kids = F.plan(name, lenient=True)
        kw = dict(kwargs)
        kw[py] = v
        e0 = fresh()
        pre = R.state(e0)
        if py in kwargs:
            pre['attrs'] = [p for p in pre['attrs'] if p[0] != py.replace('_', '-')]
        res, e = R.call(lambda: cls(value, **kw) if value != '' else cls(**kw))
        post = R.state(e) if res['ok'] else pre
        return R.emit(op='unset' if tok['kind'] == 'none' else 'setattr', surface='kw', name=py.replace('_', '-'),
                      tok=logtok(tok, v), res=res, pre=pre, post=post, tw15=twin, **base)

    cls, value, kwargs, kids = F.plan(name, lenient=True)
    is_full = name in full
    # ---- declared attributes
    for (an, at, rq) in decl:
        py = an.split(':')[-1].replace('-', '_')      # namespaced attributes: the library's spelling is the local name
        toks = tokens.get(at, [])
        if not is_full:
            toks = toks[:reduced]
        valid = None
        for tok in toks:
            e = fresh()
            if py in kwargs:            # start from "unset" so that acceptance is observable
                R.call(lambda: setattr(e, py, None))
            n0 = new_event(e)
            i1 = setattr_dot(e, py, tok, n0)
            i2 = tostring(e, i1)
            get(e, py, i2)
            if tok['kind'] != 'none':
                new_kw(py, tok, i1)
            if valid is None and R.out[i1 - 1]['res']['ok'] and tok['kind'] != 'none':
                valid = tok
        if valid is not None:
            bad = [tk for tk in toks if tk['kind'] == 'special'][:1] + [dict(kind='str', s=cps('zz-not-a-literal'), m=0, e=0)]
            vv = pyvalue(valid)
            if isinstance(vv, int) and not isinstance(vv, bool):
                # a value that compares equal to the stored one but is of another type (1 == 1.0 == True)
                bad.append(dict(kind='float', s=[], m=vv * 10, e=-1))
                if vv in (0, 1):
                    bad.append(dict(kind='special', s=cps('True' if vv == 1 else 'False'), m=0, e=0))
            for tok in bad + [dict(kind='none', s=[], m=0, e=0)]:
                e = fresh()
                n0 = new_event(e)
                i1 = setattr_dot(e, py, valid, n0)
                i2 = setattr_dot(e, py, tok, i1)          # overwrite with an invalid token / unset
                i3 = tostring(e, i2)
                get(e, py, i3)
        if rq and py in kwargs:
            e = fresh()
            R.call(lambda: setattr(e, py, None))
            n0 = new_event(e)
            tostring(e, n0)                                # a required attribute is missing: must be refused
            # the same element built WITHOUT the required attribute from the start (constructor keywords): where the
            # dot surface cannot unset it (an attribute spelt like a Python member of the class) this is the only way
            def without(py=py):
                kw = {k: v for k, v in kwargs.items() if k != py}
                x = cls(value, **kw) if value != '' else cls(**kw)
                for k in kids:
                    x.add_child(F.mk(k))
                return x
            rb, e = R.call(without)
            if rb['ok']:
                n0 = new_event(e)
                tostring(e, n0)
    # ---- undeclared names
    declared = set(a for a, _, _ in decl)
    # names the schema declares for other types (including those that collide with Python-side members of the
    # element class: name, type, id, number) plus one nonsense name
    probes = [n for n in ('name', 'type', 'id', 'number', 'font-family', 'placement', 'foo-bar', 'value')
              if n not in declared][:6 if is_full else 3]
    if is_full:     # malformed shortcut names: unknown dot names must be refused with the documented AttributeError
        probes += ['xml-', 'xml--', 'xml-no-such-child', 'xml--time', 'xml-time-']
    for an in probes:
        py = an.replace('-', '_')
        for tok in (dict(kind='str', s=cps('x'), m=0, e=0), dict(kind='int', s=cps('1'), m=0, e=0)):
            e = fresh()
            n0 = new_event(e)
            i1 = setattr_dot(e, py, tok, n0)
            tostring(e, i1)
            new_kw(py, tok, i1)
    # ---- text
    text_toks = tokens.get(st, []) if st else [dict(kind='str', s=cps('x'), m=0, e=0), dict(kind='int', s=cps('0'), m=0, e=0),
                                              dict(kind='float', s=[], m=0, e=0), dict(kind='special', s=cps('False'), m=0, e=0),
                                              dict(kind='str', s=cps(' '), m=0, e=0), dict(kind='str', s=cps(''), m=0, e=0),
                                              dict(kind='int', s=cps('1'), m=0, e=0)]
    if not is_full:
        text_toks = text_toks[:reduced]
    for tok in text_toks:
        v = pyvalue(tok)
        # constructor
        e0 = fresh()
        pre = R.state(e0)
        res, e = R.call(lambda: cls(v, **kwargs))
        if res['ok']:
            with contextlib.redirect_stdout(io.StringIO()):
                try:
                    for k in kids:
                        e.add_child(F.mk(k))
                except Exception:   # noqa
                    pass
        post = R.state(e) if res['ok'] else pre
        i1 = R.emit(op='setval', surface='ctor', tok=logtok(tok, v), res=res, pre=pre, post=post, **base)
        if res['ok']:
            tostring(e, i1)
        # property
        e = fresh()
        n0 = new_event(e)
        pre = R.state(e)
        res, _ = R.call(lambda: setattr(e, 'value_', v))
        i2 = R.emit(op='setval', surface='prop', tok=logtok(tok, v), res=res, pre=pre, post=R.state(e), parent=n0,
                    tw15=i1, **base)
        tostring(e, i2)


def main():
    job = json.load(open(sys.argv[1]))
    F = MK.Factory()
    out = []
    R = Rec(F, out)
    skipped = []
    # warm-up: every simple type is used once, base types before the types that restrict them, so that the probes
    # below see a process in which class-level state of all types exists (a driver-side choice of history)
    import value_battery as VB
    S = VB.slots(F.J)
    decl = F.J.get('stdecl', {})

    def depth(st, seen=()):
        b = decl.get(st, {}).get('base', '')
        return 0 if (not b or b in seen or b not in F.J['st']) else 1 + depth(b, seen + (st,))
    for st in sorted(S, key=lambda x: (depth(x), x)):
        kind, elem, an = S[st]
        try:
            with contextlib.redirect_stdout(io.StringIO()):
                cls, value, kwargs, kids = F.plan(elem, lenient=True)
                v = F.value(st)
                if kind == 'text':
                    cls(v, **kwargs)
                else:
                    kw = dict(kwargs)
                    kw[an.replace('-', '_')] = v
                    cls(value, **kw) if value != '' else cls(**kw)
        except Exception:   # noqa
            pass
    for name in job['elems']:
        try:
            F.mk(name, lenient=True)
        except MK.Unconstructible as ex:
            skipped.append([name, str(ex)])
            continue
        run_elem(R, F.J, name, job['tokens'], set(job['full']), job['reduced'])
    with open(sys.argv[2], 'w') as f:
        for rec in out:
            f.write(json.dumps(rec, separators=(',', ':')) + '\n')
    print(json.dumps(dict(events=len(out), skipped=skipped)))


if __name__ == '__main__':
    main()
