"""campaign.py -- the Element campaign: GEN (TLC enumerates behaviours) -> replay on the real library ->
TV (TLC judges every recorded step).  Shared by C01 C02 C06 C07 C10 C11 C12 C15 C16 C18 C19.

The result (all divergences + per-clause exercise counts + samples) is cached under
/verif/.cache/campaign/<key>, where key hashes the library sources in /repo's working tree, the
specification, the harness and the tier; a changed source file therefore always re-runs everything.
"""
import os, sys, json, time, hashlib, subprocess, shutil, fcntl, glob
from concurrent.futures import ThreadPoolExecutor
from . import common, tlc, schema

GEN_CFG = """SPECIFICATION Spec
CONSTANT Types <- GTypes
CONSTANT SigmaOf <- GSigma
CONSTANT MultiOf <- GMulti
CONSTANT RareSigmaOf <- GRare
CONSTANT RemSigmaOf <- GRem
CONSTANT RemAddsOf <- GRemAdds
CONSTANT Chks = {%(chks)s}
CONSTANT Families = {%(families)s}
CONSTANT DepthOf <- GDepth
CONSTANT WordLenOf <- GWord
CONSTANT MaxPerSym = %(maxpersym)d
CONSTANT MaxRare = %(maxrare)d
CONSTANT PlanLen = %(planlen)d
CONSTANT PlanStrideOf <- GStride
CONSTANT Ops = {%(ops)s}
INVARIANT Emit
CHECK_DEADLOCK FALSE
"""
TV_CFG = "SPECIFICATION Spec\nINVARIANT Done\nCHECK_DEADLOCK FALSE\n"

TIERS = {
    # K: symbols per type in the uniform family; R: symbols used by rare operations
    'quick': dict(K=6, R=2, depth_small=3, depth_big=3, small=6, wordlen=4, wordlen_big=3, big=12, maxpersym=2, maxrare=1,
                  ops=['add', 'fwd', 'remove', 'replace', 'replacep', 'tostring', 'tostring_ic', 'dotelem', 'dotnone'],
                  families=['uniform', 'words', 'perms', 'removal', 'cover', 'afterfail', 'wordrem', 'twoslot', 'wordedit'], chks=['TRUE', 'FALSE'], shards=40, RM=4, remadds=3, planlen=8, planmax=250,
                  walks=dict(num=25, depth=6, maxrare=3, maxpersym=3, seed=20260927)),
    'thorough': dict(K=8, R=3, depth_small=4, depth_big=3, small=5, wordlen=5, wordlen_big=4, big=12, maxpersym=2, maxrare=1,
                     ops=['add', 'fwd', 'remove', 'replace', 'replacep', 'tostring', 'tostring_ic', 'dotelem', 'dotnone'],
                     families=['uniform', 'words', 'perms', 'removal', 'cover', 'afterfail', 'wordrem', 'twoslot', 'wordedit'], chks=['TRUE', 'FALSE'], shards=64, RM=5, remadds=4, planlen=10, planmax=2000, small_wordlen=5,
                     walks=dict(num=400, depth=8, maxrare=4, maxpersym=3, seed=20260927)),
}


def q(s):
    return '"' + s + '"'


def tset(xs):
    return '{' + ','.join(q(x) for x in xs) + '}'


def fun(items, val):
    return ' @@ '.join('%s :> %s' % (q(k), val(v)) for k, v in items)


def type_plan(J, t, P, unconstructible):
    """symbols chosen for type t (driver-side choice of inputs; nothing is judged here)"""
    a = J['cm'][t]
    alpha = [x for x in J['alphabet'][t] if x not in unconstructible]
    count = {}
    for x in J['leaves'][t]:
        count[x] = count.get(x, 0) + 1
    multi = [x for x in alpha if count.get(x, 0) > 1]
    # required names: those on a shortest accepted word
    req = shortest_word(a)
    chosen = []
    def take(x):
        if x in alpha and x not in chosen:
            chosen.append(x)
    for x in req:
        take(x)
    for x in multi:
        take(x)
    # first / middle / last of the alphabet in document order, then fill
    if alpha:
        for x in (alpha[0], alpha[len(alpha) // 2], alpha[-1]):
            take(x)
    for x in alpha:
        if len(chosen) >= P['K']:
            break
        take(x)
    sigma = [x for x in alpha if x in chosen[:max(P['K'], 1)]] if len(alpha) > P['K'] else alpha
    rare = sigma if len(sigma) <= 4 else sigma[:P['R']]
    rem = [x for x in sigma if x in chosen[:P.get('RM', 4)]] or sigma[:4]
    small = len(sigma) <= P['small']
    depth = P['depth_small'] if small else P['depth_big']
    wl = P['wordlen'] if len(alpha) <= P['big'] else P['wordlen_big']
    if len(J['alphabet'][t]) <= 8 and P.get('small_wordlen'):
        wl = max(wl, P['small_wordlen'])     # small alphabets: longer valid words (thorough tier)
    edges = sum(len(v) for v in a['follow'].values())
    stride = max(1, -(-edges // P.get('planmax', 250)))
    return dict(sigma=sigma, multi=[x for x in multi if x in sigma], rare=rare, rem=rem, remadds=P.get('remadds', 3), depth=depth, wordlen=wl, stride=stride,
                cost=10 * (len(sigma) + 4) ** depth + 80 * edges // stride)


def shortest_word(a):
    from collections import deque
    if a['nullable']:
        return []
    lab = a['lab']
    fol = {int(k): v for k, v in a['follow'].items()}
    dq = deque((p, [lab[p - 1]]) for p in sorted(a['first']))
    seen = set(a['first'])
    while dq:
        p, w = dq.popleft()
        if p in a['last']:
            return w
        for n in fol[p]:
            if n not in seen:
                seen.add(n)
                dq.append((n, w + [lab[n - 1]]))
    return []


def spec_digest():
    h = hashlib.sha256()
    for pat in ('spec/*.tla', 'harness/*.py', 'gen/*.py', 'schema/*'):
        for p in sorted(glob.glob(os.path.join(common.VERIF, pat))):
            h.update(p.encode())
            h.update(open(p, 'rb').read())
    return h.hexdigest()[:16]


def unconstructible_names(wd):
    """element names for which no minimal instance can be built through the library (reported in the evidence)"""
    code = ("import sys,json;sys.path.insert(0,%r);import mk;F=mk.Factory();out={}\n"
            "for n in sorted(F.J['elemtype']):\n"
            "    try: F.mk(n)\n"
            "    except mk.Unconstructible as ex: out[n]=str(ex)\n"
            "print(json.dumps(out))") % os.path.join(common.VERIF, 'harness')
    p = subprocess.run([common.PY, '-W', 'ignore', '-B', '-c', code], env=common.impl_env(), stdout=subprocess.PIPE,
                       stderr=subprocess.PIPE, timeout=600)
    if p.returncode != 0:
        raise RuntimeError('factory probe failed: ' + p.stderr.decode()[-2000:])
    return json.loads(p.stdout.decode().strip().splitlines()[-1])


def shard_pipeline(wd, k, types, plans, P, families=None, ops=None, walks=None):
    """GEN -> replay -> TV for one shard of types; returns dict(divergences, counts, stats)"""
    sd = os.path.join(wd, 'shard%02d' % k)
    os.makedirs(sd, exist_ok=True)
    with open(os.path.join(sd, 'G.tla'), 'w') as f:
        f.write('---- MODULE G ----\nEXTENDS ElementGen\n')
        f.write('GTypes == %s\n' % tset(types))
        f.write('GSigma == %s\n' % fun([(t, plans[t]['sigma']) for t in types], tset))
        f.write('GMulti == %s\n' % fun([(t, plans[t]['multi']) for t in types], tset))
        f.write('GRare == %s\n' % fun([(t, plans[t]['rare']) for t in types], tset))
        f.write('GRem == %s\n' % fun([(t, plans[t]['rem']) for t in types], tset))
        f.write('GRemAdds == %s\n' % fun([(t, plans[t]['remadds']) for t in types], str))
        f.write('GStride == %s\n' % fun([(t, plans[t]['stride']) for t in types], str))
        f.write('GDepth == %s\n' % fun([(t, plans[t]['depth']) for t in types], str))
        f.write('GWord == %s\n' % fun([(t, plans[t]['wordlen']) for t in types], str))
        f.write('====\n')
    with open(os.path.join(sd, 'G.cfg'), 'w') as f:
        f.write(GEN_CFG % dict(chks=','.join(P['chks']), families=','.join(q(x) for x in (families or P['families'])),
                               maxpersym=P['maxpersym'], maxrare=P['maxrare'], planlen=P.get('planlen', 8), ops=','.join(q(x) for x in (ops or P['ops']))))
    t0 = time.time()
    if walks:
        # random walks of the uniform family, deeper than the enumeration reaches: TLC -simulate with a FIXED seed
        # (the exploration is the same on every run; see DESIGN 5 on determinism)
        g = tlc.run(os.path.join(sd, 'G.tla'), os.path.join(sd, 'G.cfg'), workers=1, timeout=3600, heap='2g', light=True,
                    simulate='num=%d' % (walks['num'] * len(types)), depth=walks['depth'] + 2, seed=walks['seed'] + k)
        if g['rc'] != 0 or g['error'] or g['violated']:
            raise tlc.TLCError('GEN (walks) shard %d failed:\n%s' % (k, g['out'][-3000:]))
    else:
        g = tlc.run(os.path.join(sd, 'G.tla'), os.path.join(sd, 'G.cfg'), workers=1, timeout=3600, heap='2g', light=True)
        if not g['complete']:
            raise tlc.TLCError('GEN shard %d failed:\n%s' % (k, g['out'][-3000:]))
    jobs = {}
    nbeh = 0
    for b in tlc.reports(g['out']):
        jobs.setdefault((b['type'], b['chk']), []).append(b['ops'])
        nbeh += 1
    joblist = [dict(type=t, chk=c, behaviours=v) for (t, c), v in sorted(jobs.items())]
    with open(os.path.join(sd, 'jobs.json'), 'w') as f:
        json.dump(joblist, f)
    t1 = time.time()
    trace = os.path.join(sd, 'trace.ndjson')
    p = subprocess.run([common.PY, '-W', 'ignore', '-B', os.path.join(common.VERIF, 'harness', 'replay.py'),
                        os.path.join(sd, 'jobs.json'), trace], env=common.impl_env(), stdout=subprocess.PIPE,
                       stderr=subprocess.PIPE, timeout=7200)
    if p.returncode != 0:
        raise RuntimeError('replay shard %d failed: %s' % (k, p.stderr.decode()[-3000:]))
    rstats = json.loads(p.stdout.decode().strip().splitlines()[-1])
    t2 = time.time()
    with open(os.path.join(sd, 'TV.tla'), 'w') as f:
        f.write('---- MODULE TV ----\nEXTENDS ElementTrace\n====\n')
    with open(os.path.join(sd, 'TV.cfg'), 'w') as f:
        f.write(TV_CFG)
    v = tlc.run(os.path.join(sd, 'TV.tla'), os.path.join(sd, 'TV.cfg'), workers=1, timeout=7200, heap='3g',
                env={'TRACE_FILE': trace}, light=True)
    reps = tlc.reports(v['out'])
    done = [x for x in reps if x[0] == 'DONE']
    broken = [x for x in reps if x[0] == 'BROKEN']
    if not done or done[0][1] != rstats['events'] or broken or not v['complete']:
        raise tlc.TLCError('TV shard %d rejected the trace (machinery failure): done=%s broken=%s\n%s' % (
            k, done[:1], broken[:3], v['out'][-2000:]))
    t3 = time.time()
    events = [json.loads(l) for l in open(trace)]
    # reporting policy (DESIGN 5, pruning): per property, a branch of the history trie is reported up to and
    # including its first divergence; verdicts behind it are counted, not listed.  Events are in parent-first order.
    verdicts = {x[1]: x[2] for x in reps if x[0] == 'V'}
    behind = {}      # event id -> set of properties already diverged in its strict ancestry
    divs = []
    pruned = 0
    for e in events:
        inherited = behind.get(e['parent'], frozenset())
        mine = set()
        for clause in sorted(verdicts.get(e['id'], [])):
            pid = clause.split('_')[0]
            if pid in inherited:
                pruned += 1
                continue
            mine.add(pid)
            divs.append(divergence(e, clause, events))
        behind[e['id']] = inherited | frozenset(mine)
    # samples of real recorded behaviours for the evidence
    samples = []
    for e in events[:: max(1, len(events) // 3)][:3]:
        samples.append(dict(type=e['type'], chk=e['pre']['chk'], hist=e['hist'], ok=e['res']['ok'], exc=e['res']['exc'],
                            insw=e['post']['insw'], ordw=e['post']['ordw']))
    opcount = {}
    for e in events:
        kk = e['op'] + ('' if e['res']['ok'] else '!')
        opcount[kk] = opcount.get(kk, 0) + 1
    if not os.environ.get('VERIF_KEEP'):
        os.remove(trace)
        os.remove(os.path.join(sd, 'jobs.json'))
    return dict(divergences=divs, counts=done[0][2], events=len(events), behaviours=nbeh, gen_states=g['distinct'],
                gen_transitions=g['generated'], tv_states=v['distinct'], samples=samples, opcount=opcount,
                times=dict(gen=round(t1 - t0, 1), replay=round(t2 - t1, 1), tv=round(t3 - t2, 1), types=types, families=families), types=types,
                inapplicable=sum(j['inapplicable'] for j in rstats['jobs']), pruned=pruned)


def digest_of(e):
    return dict(ok=e['res']['ok'], exc=e['res']['exc'], insw=e['post']['insw'], ordw=e['post']['ordw'])


def divergence(e, clause, events):
    pid = clause.split('_')[0]
    key = [pid, clause, e['type'], e['pre']['chk'], e['hist'], digest_of(e)]
    what = '%s %s chk=%s history=%s observed ok=%s exc=%s children(schema order)=%s' % (
        clause, e['type'], e['pre']['chk'], json.dumps(e['hist']), e['res']['ok'], e['res']['exc'], e['post']['ordw'])
    twin = None
    for tw in ('tw10', 'tw16', 'tw11', 'tw11s', 'tw15'):
        if clause in ('C10_future', 'C16_future', 'C11_obs', 'C11_state', 'C15_same') and e.get(tw) and \
                tw == {'C10_future': 'tw10', 'C16_future': 'tw16', 'C11_obs': 'tw11', 'C11_state': 'tw11s', 'C15_same': 'tw15'}[clause]:
            t = events[e[tw] - 1]
            twin = dict(hist=t['hist'], **digest_of(t), text=t['text'])
            key.append(dict(twin_ok=t['res']['ok'], twin_exc=t['res']['exc'], twin_ordw=t['post']['ordw'],
                            same_text=(t['text'] == e['text'])))
    return dict(pid=pid, clause=clause, key=key, type=e['type'], where=e['res'].get('where', ''), exc=e['res']['exc'],
                op=e['op'], what=what, replay=dict(type=e['type'], chk=e['pre']['chk'], hist=e['hist'], observed=digest_of(e),
                                                   text=e['text'], twin=twin))


def run_campaign(tier):
    J = schema.ensure()
    P = TIERS[tier]
    key = hashlib.sha256(('%s|%s|%s|%s' % (common.repo_digest(), spec_digest(), tier, json.dumps(P, sort_keys=True))).encode()).hexdigest()[:20]
    cdir = os.path.join(common.CACHE, 'campaign')
    os.makedirs(cdir, exist_ok=True)
    res_path = os.path.join(cdir, key + '.json')
    lock = open(os.path.join(cdir, 'lock'), 'w')
    fcntl.flock(lock, fcntl.LOCK_EX)
    try:
        if os.path.exists(res_path) and not os.environ.get('VERIF_NOCACHE'):
            r = json.load(open(res_path))
            r['cache_hit'] = True
            return r
        t0 = time.time()
        wd = tlc.workdir('campaign_' + tier)
        unc = unconstructible_names(wd)
        plans = {t: type_plan(J, t, P, unc) for t in sorted(J['cm'])}
        plans = {t: p for t, p in plans.items() if p['sigma']}
        # element classes WITHOUT element content (simple types, simple content, empty types): addressed as '=<element name>'
        # with a small global alphabet; a checked one must refuse every child, an unchecked one accepts anything (C18)
        glob_sigma = [x for x in ('pitch', 'words', 'duration') if x not in unc]
        noncm = sorted(n for n in J['elemtype'] if J['elemtype'][n] not in J['cm'] and n not in unc)
        if P.get('noncm_every', 1) > 1:
            noncm = noncm[::P['noncm_every']]
        for n in noncm:
            plans['=' + n] = dict(sigma=glob_sigma, multi=[], rare=glob_sigma[:2], rem=glob_sigma[:2], remadds=1, depth=2, wordlen=1,
                                  stride=1, cost=400, nofamilies=True)
        # work units: a type with all families, or -- for the heaviest types -- one unit per family group; balanced over
        # the shards by estimated cost, largest first
        groups = [['uniform'], ['cover', 'wordrem', 'wordedit'], [f for f in P['families'] if f not in ('uniform', 'cover', 'wordrem', 'wordedit')]]
        total = sum(p['cost'] for p in plans.values() if not p.get('nofamilies'))
        units = []
        for t, p in plans.items():
            if p.get('nofamilies'):
                units.append((p['cost'], t, ('uniform', '-nodot')))     # shortcut names only exist for schema children
                continue
            if p['cost'] > total / (2.0 * common.NCPU):
                for g in groups:
                    g = [f for f in g if f in P['families']]
                    if g:
                        units.append((p['cost'] / 3.0, t, tuple(g)))
            else:
                units.append((p['cost'], t, tuple(P['families'])))
        units.sort(key=lambda u: (-u[0], u[1], u[2]))
        n = min(P['shards'], len(units))
        shards = [dict(load=0, byfam={}) for _ in range(n)]
        for cost, t, fams in units:
            # a shard runs ONE TLC generation per family set, so keep family sets apart
            cands = [s_ for s_ in shards if not s_['byfam'] or fams in s_['byfam']]
            s_ = min(cands or shards, key=lambda z: z['load'])
            s_['byfam'].setdefault(fams, []).append(t)
            s_['load'] += cost
        jobs = []
        for s_ in shards:
            for fams, ts in s_['byfam'].items():
                jobs.append((sorted(ts), [f for f in fams if f != '-nodot'],
                             ['add', 'remove', 'replace', 'replacep', 'tostring', 'tostring_ic'] if '-nodot' in fams else None))
        results = []
        W = P.get('walks')
        wjobs = []
        if W:
            wtypes = sorted(t for t, p in plans.items() if not p.get('nofamilies'))
            wplans = {t: dict(plans[t], depth=W['depth']) for t in wtypes}
            Pw = dict(P, maxrare=W['maxrare'], maxpersym=W['maxpersym'])
            nsh = min(common.NCPU, len(wtypes))
            wjobs = [(wtypes[j::nsh], wplans, Pw) for j in range(nsh)]
        with ThreadPoolExecutor(max_workers=common.NCPU) as ex:
            futs = [ex.submit(shard_pipeline, wd, k, ts, plans, P, fams, ops) for k, (ts, fams, ops) in enumerate(jobs)]
            futs += [ex.submit(shard_pipeline, wd, len(jobs) + k, ts, wp, Pw_, ['uniform'], None, W) for k, (ts, wp, Pw_) in enumerate(wjobs)]
            for f in futs:
                results.append(f.result())
        counts = {}
        for r in results:
            for c, v in r['counts'].items():
                counts[c] = counts.get(c, 0) + v
        opcount = {}
        for r in results:
            for c, v in r['opcount'].items():
                opcount[c] = opcount.get(c, 0) + v
        out = dict(tier=tier, key=key, wall=round(time.time() - t0, 1),
                   events=sum(r['events'] for r in results), behaviours=sum(r['behaviours'] for r in results),
                   gen_states=sum(r['gen_states'] for r in results), gen_transitions=sum(r['gen_transitions'] for r in results),
                   tv_states=sum(r['tv_states'] for r in results), counts=counts, opcount=opcount,
                   inapplicable=sum(r['inapplicable'] for r in results), pruned=sum(r['pruned'] for r in results),
                   divergences=[d for r in results for d in r['divergences']],
                   samples=[s for r in results for s in r['samples']][:12],
                   plans={t: dict(sigma=p['sigma'], depth=p['depth'], wordlen=p['wordlen'], rare=p['rare']) for t, p in plans.items()},
                   unconstructible=unc, shard_times=[r['times'] for r in results], params=P, types=len(plans))
        tmp = res_path + '.tmp'
        with open(tmp, 'w') as f:
            json.dump(out, f)
        os.replace(tmp, res_path)
        # keep the cache small: drop older campaign results of the same tier
        for p in glob.glob(os.path.join(cdir, '*.json')):
            if p != res_path:
                try:
                    if json.load(open(p)).get('tier') == tier:
                        os.remove(p)
                except Exception:   # noqa
                    pass
        if not os.environ.get('VERIF_KEEP'):
            shutil.rmtree(wd, ignore_errors=True)
        out['cache_hit'] = False
        return out
    finally:
        fcntl.flock(lock, fcntl.LOCK_UN)
        lock.close()


if __name__ == '__main__':
    r = run_campaign(sys.argv[1] if len(sys.argv) > 1 else 'quick')
    print(json.dumps({k: r[k] for k in ('tier', 'wall', 'events', 'behaviours', 'gen_states', 'counts', 'opcount', 'inapplicable', 'cache_hit')}, indent=1))
    import collections
    c = collections.Counter((d['pid'], d['clause']) for d in r['divergences'])
    for k, v in sorted(c.items()):
        print(k, v)
    print(r['shard_times'])
