"""Shared plumbing of every check: tiers, seeds, known findings, replay files, evidence, exit codes.

Exit codes: 0 held (or only listed known findings seen); 1 + "VIOLATION property=<id> replay=<path>";
2 machinery failure (never reported as a pass).
"""
import os, sys, json, time, hashlib, traceback

VERIF = os.path.dirname(os.path.dirname(os.path.abspath(__file__)))
REPO = os.environ.get('VERIF_REPO', '/repo')
PY = '/venv/bin/python'
KF_DIR = os.path.join(VERIF, 'known_findings')
EVID = os.path.join(VERIF, 'evidence')
REPLAYS = os.path.join(VERIF, 'replays')
CACHE = os.path.join(VERIF, '.cache')
NCPU = min(16, os.cpu_count() or 1)


def seed():
    try:
        return int(os.environ.get('VERIF_SEED', '0'))
    except ValueError:
        return 0


def keystr(key):
    return json.dumps(key, sort_keys=True, separators=(',', ':'), ensure_ascii=True)


def load_findings(pid):
    """known_findings/<pid>.jsonl : one {"class":..., "key":[...], "what":...} per line.  Read-only."""
    path = os.path.join(KF_DIR, pid + '.jsonl')
    known = {}
    if os.path.exists(path):
        with open(path) as f:
            for line in f:
                line = line.strip()
                if line:
                    d = json.loads(line)
                    known[keystr(d['key'])] = d
    return known


def impl_env():
    e = dict(os.environ)
    e['PYTHONPATH'] = REPO
    e['PYTHONHASHSEED'] = '0'
    e['PYTHONDONTWRITEBYTECODE'] = '1'
    e['MUSICXML_VERIF'] = '1'
    return e


def repo_digest():
    """hash of every source file the library can load (for cache keys)"""
    h = hashlib.sha256()
    base = os.path.join(REPO, 'musicxml')
    for root, dirs, files in sorted(os.walk(base)):
        dirs.sort()
        if 'tests' in dirs:
            dirs.remove('tests')
        for fn in sorted(files):
            if fn.endswith(('.py', '.xsd')):
                p = os.path.join(root, fn)
                h.update(p.encode())
                with open(p, 'rb') as f:
                    h.update(f.read())
    return h.hexdigest()[:16]


def conclude(pid, tier, divergences, coverage, t0, assumptions=(), level='model_checking', judged_pids=None):
    """divergences: list of dict(key=..., cls=..., what=..., replay=...) all for property pid."""
    known = load_findings(pid)
    os.makedirs(EVID, exist_ok=True)
    os.makedirs(REPLAYS, exist_ok=True)
    seen_known, unknown = {}, []
    for d in divergences:
        ks = keystr(d['key'])
        if ks in known:
            seen_known.setdefault(known[ks]['class'], []).append(d)
        else:
            unknown.append(d)
    # every divergence of this run, for the hand-run maintenance tool (tools/triage.py); never read by a check
    os.makedirs(os.path.join(CACHE, 'last'), exist_ok=True)
    with open(os.path.join(CACHE, 'last', '%s.%s.jsonl' % (pid, tier)), 'w') as f:
        for d in divergences:
            f.write(json.dumps(dict(key=d['key'], cls=d.get('cls'), what=d.get('what'), known=keystr(d['key']) in known), default=str) + '\n')
    per_class = {}
    for d in known.values():
        per_class[d['class']] = per_class.get(d['class'], 0) + 1
    what = {}
    for d in known.values():
        what.setdefault(d['class'], d.get('what', ''))
    for cls in sorted(seen_known):
        print('KNOWN-FINDING: property=%s class=%s %s (witnesses reproduced: %d/%d)' % (
            pid, cls, what.get(cls, ''), len(seen_known[cls]), per_class[cls]))
    shown = 0
    for d in unknown:
        h = hashlib.sha256(keystr(d['key']).encode()).hexdigest()[:12]
        path = os.path.join(REPLAYS, '%s-%s.json' % (pid, h))
        with open(path, 'w') as f:
            json.dump(dict(property=pid, key=d['key'], cls=d.get('cls'), what=d.get('what'), replay=d.get('replay'),
                           rerun='./check %s --replay %s' % (pid, path)), f, indent=1, default=str)
        if shown < 25:
            print('VIOLATION property=%s replay=%s' % (pid, path))
            print('  ' + str(d.get('what'))[:300])
        shown += 1
    if shown > 25:
        print('... %d further violations of %s not listed (replay files written)' % (shown - 25, pid))
    cov = dict(coverage)
    cov['known_finding_classes_reproduced'] = {c: len(v) for c, v in sorted(seen_known.items())}
    ev = dict(property_id=pid, tier=tier, seed=seed(), level=level, coverage=cov, assumptions=list(assumptions),
              wall_s=round(time.time() - t0, 2), violations=len(unknown))
    with open(os.path.join(EVID, pid + '.json'), 'w') as f:
        json.dump(ev, f, indent=1, default=str)
    print('%s tier=%s: %s; evidence written (%.1fs)' % (pid, tier, 'VIOLATED' if unknown else 'held', time.time() - t0))
    return 1 if unknown else 0


def main_wrapper(fn):
    try:
        rc = fn()
    except SystemExit:
        raise
    except BaseException:
        traceback.print_exc()
        print('MACHINERY FAILURE (exit 2)')
        sys.exit(2)
    sys.exit(rc)
