"""suite_recorder.py -- a pytest plugin (loaded with -p from /verif, no edit to /repo) that records every OUTERMOST
public call on an XMLElement made by the repository's own test suite as one ElementTrace event, so that the 192
tests -- whose own assertions compare text on paths the author anticipated -- are re-judged against every clause
of Element.tla (C01 C02 C06 C07 C10 C12 C16 C18 C19).

Recorded: add_child, remove, replace_child (child form), to_string, xml_* dot assignment of an element / None.
Per element instance the events form a chain (parent = previous event of that instance).  Elements whose type has
no content model in the schema tables are skipped.  Output: $VERIF_SUITE_TRACE (ndjson).
"""
import os, io, sys, json, functools, hashlib, itertools, threading
import xml.etree.ElementTree as ET

OUT_PATH = os.environ.get('VERIF_SUITE_TRACE')
SCHEMA = os.environ.get('VERIF_SCHEMA_JSON')
_state = threading.local()
_events = []
_last = {}        # id(element) -> (last event id, element kept alive)
_kids = {}        # id(element) -> list of child objects in creation (first-seen) order
_J = None
_type_of = {}


def _cm_type(e):
    """schema name of the element's complex type if it has element content"""
    n = e.name
    t = _J['elemtype'].get(n)
    return t if t in _J['cm'] else None


def _serial(e, c):
    ks = _kids.setdefault(id(e), [])
    for i, k in enumerate(ks):
        if k is c:
            return i + 1
    ks.append(c)
    return len(ks)


def _project(e):
    ins_o = list(e.get_children(ordered=False))
    ord_o = list(e.get_children(ordered=True))
    for c in ins_o + ord_o:
        _serial(e, c)
    ks = _kids.setdefault(id(e), [])
    return dict(ins=[_serial(e, c) for c in ins_o], ord=[_serial(e, c) for c in ord_o],
                insw=[c.name for c in ins_o], ordw=[c.name for c in ord_o],
                kids=list(range(1, len(ks) + 1)), parof=[1 if k.get_parent() is e else 0 for k in ks],
                chk=bool(e.xsd_check), attrs=sorted([[str(a), repr(v)] for a, v in e.attributes.items()]), val=repr(e.value_))


def _record(e, op, sym, idx, fwd, ic, newchild, call):
    t = _cm_type(e)
    if t is None:
        return call()
    pre = _project(e)
    prev = _last.get(id(e), (0, None))[0]
    if prev and _events[prev - 1]['post'] != pre:
        prev = 0      # something unrecorded happened in between (e.g. a predicate-form replace): start a new chain
        if pre['ins'] or pre['ord']:
            _last.pop(id(e), None)
            return call()
    elif not prev and (pre['ins'] or pre['ord'] or pre['kids']):
        if pre['ins'] or pre['ord']:
            return call()     # first sighting of an element that already has children: no known history, skip
    res = dict(ok=True, exc='', mro=[], nonemsg=False, where='', out=0, err=0, cpu_ms=0)
    text, outw = '', []
    try:
        ret = call()
        if op == 'tostring':
            text = hashlib.sha1(ret.encode('utf-8')).hexdigest()[:12]
            try:
                outw = [c.tag for c in ET.fromstring(ret)]
            except Exception:  # noqa
                outw = ['!unparsable']
        return ret
    except Exception as ex:  # noqa
        res.update(ok=False, exc=type(ex).__name__, mro=[c.__name__ for c in type(ex).__mro__], nonemsg='NoneType' in str(ex))
        if op == 'tostring':
            text = '!' + hashlib.sha1((type(ex).__name__ + ':' + str(ex)).encode('utf-8')).hexdigest()[:12]
        raise
    finally:
        post = _project(e)
        if newchild == 'find':      # a value shortcut may have created the child itself: it is the one that is new
            fresh = [k for k in post['ins'] if k not in pre['ins']]
            newchild = None
            kid = fresh[0] if len(fresh) == 1 else 0
        else:
            kid = _serial(e, newchild) if newchild is not None else 0
        ev = dict(type=t, lenient=False, reads=[], op=op, sym=sym, idx=idx, fwd=fwd, ic=ic, kid=kid, res=res, pre=pre, post=post, text=text,
                  outw=outw, id=len(_events) + 1, parent=prev, tw10=0, tw16=0, tw11=0, tw11s=0, tw15=0, tw18=0, aux=False,
                  hist=[[op, sym, idx]], test=os.environ.get('PYTEST_CURRENT_TEST', '').split(' ')[0])
        _events.append(ev)
        _last[id(e)] = (ev['id'], e)


def _outermost(orig, recorded):
    @functools.wraps(orig)
    def w(self, *a, **k):
        if getattr(_state, 'depth', 0) > 0 or '_unordered_children' not in self.__dict__ or '_child_container_tree' not in self.__dict__:
            return orig(self, *a, **k)
        _state.depth = 1
        try:
            return recorded(self, *a, **k)
        finally:
            _state.depth = 0
    return w


def pytest_configure(config):
    global _J
    if not OUT_PATH:
        return
    _J = json.load(open(SCHEMA))
    import musicxml.xmlelement.xmlelement as X
    E = X.XMLElement
    orig_add, orig_remove, orig_replace, orig_ts, orig_setattr = E.add_child, E.remove, E.replace_child, E.to_string, E.__setattr__

    def add_child(self, child, forward=None):
        if not isinstance(child, E):
            return orig_add(self, child, forward)
        return _record(self, 'add', child.name, 0, -1 if forward is None else forward, False, child,
                       lambda: orig_add(self, child, forward))

    def remove(self, child):
        ins = list(self.get_children(ordered=False))
        idx = next((i + 1 for i, c in enumerate(ins) if c is child), 0)
        if not idx:
            return orig_remove(self, child)
        return _record(self, 'remove', '', idx, -1, False, None, lambda: orig_remove(self, child))

    def replace_child(self, old, new, index=0):
        ins = list(self.get_children(ordered=False))
        idx = next((i + 1 for i, c in enumerate(ins) if c is old), 0)
        if not idx or not isinstance(new, E) or index != 0:
            _last.pop(id(self), None)
            return orig_replace(self, old, new, index)
        return _record(self, 'replace', new.name, idx, -1, False, new, lambda: orig_replace(self, old, new, index))

    def to_string(self, intelligent_choice=False):
        return _record(self, 'tostring', '', 0, -1, bool(intelligent_choice), None, lambda: orig_ts(self, intelligent_choice))

    def __setattr__(self, key, value):
        if key.startswith('xml_') and (value is None or isinstance(value, E)):
            sym = key[4:].replace('_', '-')
            if value is None:
                return _record(self, 'dotnone', sym, 0, -1, False, None, lambda: orig_setattr(self, key, value))
            if value.name == sym:
                return _record(self, 'dotelem', sym, 0, -1, False, value, lambda: orig_setattr(self, key, value))
        elif key.startswith('xml_') and not isinstance(value, E):
            return _record(self, 'dotval', key[4:].replace('_', '-'), 0, -1, False, 'find', lambda: orig_setattr(self, key, value))
        return orig_setattr(self, key, value)
    for name, fn in (('add_child', add_child), ('remove', remove), ('replace_child', replace_child), ('to_string', to_string),
                     ('__setattr__', __setattr__)):
        setattr(E, name, _outermost(getattr(E, name), fn))


def pytest_unconfigure(config):
    if not OUT_PATH:
        return
    with open(OUT_PATH, 'w') as f:
        for ev in _events:
            f.write(json.dumps(ev, separators=(',', ':')) + '\n')
