"""value_battery.py -- C13 for the value layer: does a slot of simple type st accept the same values whatever was used
before in the process?  For every simple type that some element text / attribute slot is typed with, every
enumeration literal of EVERY type (and a few numbers) is offered; the accept/reject vector is digested.
  pristine: each type in its own forked child of a process that has only imported the library
  sorted / reversed: all types one after the other in one process, in that order
argv: mode out.json        (mode: pristine | sorted | reversed)
"""
import sys, os, io, json, hashlib, contextlib
HERE = os.path.dirname(os.path.abspath(__file__))
sys.path.insert(0, HERE)
import mk as MK


def slots(J):
    out = {}
    for n in sorted(J['elemtype']):
        t = J['elemtype'][n]
        if J['elemkind'][n] == 'simple':
            out.setdefault(t, ('text', n, ''))
        else:
            if J['sbase'][t]:
                out.setdefault(J['sbase'][t], ('text', n, ''))
            for (an, at, rq) in J['attrs'][t]:
                if ':' not in an and an != 'name':
                    out.setdefault(at, ('attr', n, an))
    return out


def offers(J):
    lits = sorted({l for d in J['st'].values() for l in d['enum']})
    return lits + [-1, 0, 1, 2, 200, 0.5, 1.5, '', 'x', 1.0, 2.0, 0.0, True, False]


def probe(F, slot, vals, rev=False):
    kind, elem, an = slot
    bits = []
    order = list(range(len(vals)))
    if rev:
        order.reverse()        # the accept/reject of a value must not depend on which values were offered before it
    out = {}
    cls, value, kwargs, kids = F.plan(elem, lenient=True)
    for i in order:
        v = vals[i]
        try:
            with contextlib.redirect_stdout(io.StringIO()):
                if kind == 'text':
                    cls(v, **kwargs)
                else:
                    kw = dict(kwargs)
                    kw[an.replace('-', '_')] = v
                    cls(value, **kw) if value != '' else cls(**kw)
            out[i] = '1'
        except Exception:  # noqa
            out[i] = '0'
    bits = [out[i] for i in range(len(vals))]
    return hashlib.sha1(''.join(bits).encode()).hexdigest()[:12]


def in_child(fn):
    r, w = os.pipe()
    pid = os.fork()
    if pid == 0:
        try:
            os.close(r)
            os.write(w, json.dumps(fn()).encode())
        finally:
            os._exit(0)
    os.close(w)
    buf = b''
    while True:
        c = os.read(r, 65536)
        if not c:
            break
        buf += c
    os.close(r)
    os.waitpid(pid, 0)
    return json.loads(buf.decode())


def main():
    mode = sys.argv[1]
    F = MK.Factory()
    J = F.J
    S = slots(J)
    vals = offers(J)
    order = sorted(S)
    if mode == 'reversed':
        order = order[::-1]
    out = {}
    for st in order:
        try:
            F.plan(S[st][1], lenient=True)
        except MK.Unconstructible:
            continue
        if mode == 'pristine':
            out[st] = in_child(lambda: probe(F, S[st], vals))
        else:
            out[st] = probe(F, S[st], vals, rev=(mode == 'reversed'))
    json.dump(dict(mode=mode, digests=out, offers=len(vals)), open(sys.argv[2], 'w'))
    print(json.dumps(dict(types=len(out), offers=len(vals))))


if __name__ == '__main__':
    main()
