"""setup_cmd: regenerate Schema.tla from the pinned XSD, parse every hand-written module, run SchemaSelfCheck."""
import os, sys, subprocess, time, json, glob
from . import common, tlc, schema
from collections import Counter

SSC_CFG = """SPECIFICATION Spec
CONSTANT Types <- MCTypes
CONSTANT FreeLen = 2
CONSTANT ViaLenOf <- MCViaLen
INVARIANT SameLanguage
INVARIANT SameExt
INVARIANT SameAlphabet
CHECK_DEADLOCK FALSE
"""


def vialen(J, budget, cap):
    out = {}
    for t, a in sorted(J['cm'].items()):
        lab = a['lab']
        fol = {int(k): v for k, v in a['follow'].items()}
        level = Counter()
        for sym in set(lab):
            S = frozenset(p for p in a['first'] if lab[p - 1] == sym)
            if S:
                level[S] += 1
        c = sum(level.values())
        L = 1
        while L < cap:
            nl = Counter()
            for S, m in level.items():
                nxt = {}
                for p in S:
                    for q in fol[p]:
                        nxt.setdefault(lab[q - 1], set()).add(q)
                for sym, Q in nxt.items():
                    nl[frozenset(Q)] += m
            if c + sum(nl.values()) > budget or not nl:
                break
            level = nl
            c += sum(nl.values())
            L += 1
        out[t] = L
    return out


def selfcheck(J, budget=3000, cap=7, timeout=900):
    wd = tlc.workdir('ssc')
    vl = vialen(J, budget, cap)
    with open(os.path.join(wd, 'SSC_MC.tla'), 'w') as f:
        f.write('---- MODULE SSC_MC ----\nEXTENDS SchemaSelfCheck\nMCTypes == CMTypes\nMCViaLen == ' +
                ' @@ '.join('"%s" :> %d' % (k, v) for k, v in vl.items()) + '\n====\n')
    with open(os.path.join(wd, 'SSC_MC.cfg'), 'w') as f:
        f.write(SSC_CFG)
    r = tlc.run(os.path.join(wd, 'SSC_MC.tla'), os.path.join(wd, 'SSC_MC.cfg'), workers=common.NCPU, timeout=timeout, heap='6g')
    if r['violated'] or not r['complete']:
        raise tlc.TLCError('SchemaSelfCheck failed:\n' + r['out'][-3000:])
    return r


def main():
    t0 = time.time()
    gen = os.path.join(common.VERIF, 'gen', 'xsd2tla.py')
    subprocess.run([sys.executable, gen], check=True)
    J = schema.ensure()
    # parse every module of the specification
    for m in sorted(glob.glob(os.path.join(common.VERIF, 'spec', '*.tla'))):
        p = subprocess.run(['java', '-DTLA-Library=' + os.path.join(common.VERIF, 'spec'), '-cp', tlc.JAR, 'tla2sany.SANY', m],
                           stdout=subprocess.PIPE, stderr=subprocess.STDOUT, cwd=os.path.join(common.VERIF, 'spec'))
        out = p.stdout.decode()
        if 'Could not find module Impl' in out or 'Cannot find source file for module Impl' in out:
            print('sany  %-28s skipped (needs the generated module Impl)' % os.path.basename(m))
            continue
        if p.returncode != 0 or '*** Errors' in out or 'Fatal' in out:
            print(out[-2000:])
            raise SystemExit(2)
        print('sany  %-28s ok' % os.path.basename(m))
    # hand-written examples guarding Lexical.tla (ASSUMEs evaluated by TLC at start-up)
    wd = tlc.workdir('lextest')
    open(os.path.join(wd, 'LT.tla'), 'w').write('---- MODULE LT ----\nEXTENDS LexicalTest\n====\n')
    open(os.path.join(wd, 'LT.cfg'), 'w').write('INIT Init\nNEXT Next\n')
    lt = tlc.run(os.path.join(wd, 'LT.tla'), os.path.join(wd, 'LT.cfg'), workers=1, timeout=300)
    if not lt['complete']:
        raise tlc.TLCError('LexicalTest failed:\n' + lt['out'][-3000:])
    print('LexicalTest: all lexical-space examples hold')
    r = selfcheck(J)
    print('SchemaSelfCheck: %d states, automata == particle-tree semantics, Ext == relaxed-tree semantics (%.0fs)' % (r['distinct'], r['wall']))
    print('setup done in %.0fs' % (time.time() - t0))
    return 0


if __name__ == '__main__':
    common.main_wrapper(main)
