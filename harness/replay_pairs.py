"""replay_pairs.py -- C13: drives two element instances, each with its own history, in every given interleaving, in ONE
process; records per step what the acting instance observes, what it observes alone, and the other instance's
projection before / after.  A probe battery over all element-content types is run at the start and at the end.

argv: job.json out.ndjson     job = {pairs: [[ta, ha, tb, hb], ...], schedules: [[1,2,...], ...], battery_ref: digest|""}
"""
import sys, os, io, json, hashlib, contextlib
HERE = os.path.dirname(os.path.abspath(__file__))
sys.path.insert(0, HERE)
import mk as MK
import replay as RP


class Inst:
    def __init__(self, F, t, late=False):
        """late: the instance is created with xsd_check=False and switched to checking before its first operation"""
        self.dead = ''
        self.kids = []
        try:
            self.R = RP.Runner(F, t, True)
            with contextlib.redirect_stdout(io.StringIO()):
                self.e = F.mk(self.R.elem, xsd_check=not late, bare=True, lenient=True)
                if late:
                    self.e.xsd_check = True
        except Exception as ex:   # noqa  -- a class that could be instantiated when the run began no longer can: an observation
            self.dead = 'constructor:' + type(ex).__name__

    def proj(self):
        if self.dead:
            return [[self.dead], [], [], [], '']
        p = self.R.project(self.e, self.kids)
        return [p['insw'], p['ordw'], p['parof'], p['attrs'], p['val']]

    def step(self, op):
        """returns the observation [ok, exc, insw, ordw, text] or None when the step is inapplicable"""
        if self.dead:
            return ['dead', self.dead, [], [], '']
        try:
            self.R.check_applicable(self.e, op)
        except RP.Inapplicable:
            return ['inapplicable', '', [], [], '']
        ok, exc, text = True, '', ''
        try:
            with contextlib.redirect_stdout(io.StringIO()), contextlib.redirect_stderr(io.StringIO()):
                text, _ = self.R.apply(self.e, self.kids, op)
        except MK.Unconstructible:
            return ['inapplicable', '', [], [], '']
        except Exception as ex:   # noqa
            ok, exc = False, type(ex).__name__
            if op['op'] == 'tostring':
                text = '!' + hashlib.sha1((type(ex).__name__ + ':' + str(ex)).encode()).hexdigest()[:12]
        p = self.R.project(self.e, self.kids)
        return ['ok' if ok else 'raised', exc, p['insw'], p['ordw'], text]     # first component always a string (comparable in TLC)


FOREIGN = ('grace', 'chord', 'pitch', 'duration', 'tie', 'words', 'root', 'kind', 'text', 'syllabic', 'fifths', 'beats', 'score-part', 'staves')


def battery(F):
    """fixed probes on fresh elements of every element-content type: acceptance of every child name, to_string verdict"""
    h = hashlib.sha1()
    J = F.J
    for t in sorted(J['cm']):
        try:
            R = RP.Runner(F, t, True)
        except MK.Unconstructible:
            continue
        for sym in J['alphabet'][t]:
            for ops in ([dict(op='add', sym=sym)], [dict(op='add', sym=sym), dict(op='tostring', ic=False)],
                        [dict(op='add', sym=sym), dict(op='remove', idx=1), dict(op='tostring', ic=False)]):
                try:
                    rec = R.execute(ops)
                except MK.Unconstructible:
                    rec = None
                if rec is not None:
                    h.update(json.dumps([t, sym, len(ops), rec['res']['ok'], rec['res']['exc'], rec['post']['ordw'], rec['text']]).encode())
        # shortcut names that are children of OTHER types: a fresh element refuses them whatever other elements did before
        for sym in FOREIGN:
            if sym in J['alphabet'][t]:
                continue
            try:
                e = F.mk(R.elem, xsd_check=True, bare=True, lenient=True)
                kid = F.mk(sym)
            except Exception:  # noqa
                continue
            try:
                with contextlib.redirect_stdout(io.StringIO()), contextlib.redirect_stderr(io.StringIO()):
                    setattr(e, 'xml_' + sym.replace('-', '_'), kid)
                out = 'accepted'
            except Exception as ex:  # noqa
                out = type(ex).__name__
            h.update(json.dumps([t, 'xml_' + sym, out, [c.name for c in e.get_children(ordered=False)]]).encode())
    return h.hexdigest()[:16]


def main():
    job = json.load(open(sys.argv[1]))
    F = MK.Factory()
    out = []
    d0 = battery(F)
    ref = job['battery_ref'] or d0
    out.append(dict(op='battery', when='start', digest=d0, ref=ref, ta='', tb='', sched=[], k=0, inst=0, obs=[], solo=[], other_before=[], other_after=[], ha=[], hb=[]))
    solo_cache = {}

    def solo(t, h, late):
        key = (t, json.dumps(h), late)
        if key not in solo_cache:
            x = Inst(F, t, late)
            solo_cache[key] = [x.step(op) for op in h]
        return solo_cache[key]
    # every pair in every schedule with both instances created checking, and -- in the first and the last schedule --
    # with both created unchecked and switched to checking afterwards (the setting is per instance, whenever it is set)
    runs = [(ta, ha, tb, hb, sched, False) for (ta, ha, tb, hb) in job['pairs'] for sched in job['schedules']]
    runs += [(ta, ha, tb, hb, sched, True) for (ta, ha, tb, hb) in job['pairs']
             for sched in [x for x in job['schedules'] if x.count(1) == len(ha) and x.count(2) == len(hb)][:1] +
                          [x for x in job['schedules'] if x.count(1) == len(ha) and x.count(2) == len(hb)][-1:]]
    for (ta, ha, tb, hb, sched, late) in runs:
        sa, sb = solo(ta, ha, late), solo(tb, hb, late)
        if True:
            if sched.count(1) != len(ha) or sched.count(2) != len(hb):
                continue
            A, B = Inst(F, ta, late), Inst(F, tb, late)
            ia = ib = 0
            for k, who in enumerate(sched):
                me, other = (A, B) if who == 1 else (B, A)
                ob = other.proj()
                if who == 1:
                    obs, so = me.step(ha[ia]), sa[ia]
                    ia += 1
                else:
                    obs, so = me.step(hb[ib]), sb[ib]
                    ib += 1
                out.append(dict(op='pairstep', late=late, ta=ta, tb=tb, ha=ha, hb=hb, sched=sched, k=k + 1, inst=who, obs=obs, solo=so,
                                other_before=ob, other_after=other.proj(), digest='', ref='', when=''))
    d1 = battery(F)
    out.append(dict(op='battery', when='end', digest=d1, ref=ref, ta='', tb='', sched=[], k=0, inst=0, obs=[], solo=[], other_before=[], other_after=[], ha=[], hb=[]))
    with open(sys.argv[2], 'w') as f:
        for rec in out:
            f.write(json.dumps(rec, separators=(',', ':')) + '\n')
    print(json.dumps(dict(events=len(out), battery=d0)))


if __name__ == '__main__':
    if len(sys.argv) == 2 and sys.argv[1] == '--battery':
        print(json.dumps(dict(battery=battery(MK.Factory()))))
    else:
        main()
