"""campaign_doc.py -- the Document campaign (C08 C09 C14; contributes to C19): TLC (DocumentGen) supplies one valid child
word per follow edge of every content model, the schema-only builder turns them into documents, the replayer
round-trips / parses / deep-copies on the real library, TLC (DocumentTrace) judges every recorded scenario."""
import os, sys, json, time, hashlib, subprocess, shutil, fcntl, glob
from concurrent.futures import ThreadPoolExecutor
from . import common, tlc, schema
from .campaign import spec_digest, tset

TIERS = {'quick': dict(shards=32, maxwords=40, nmut=1, wrap_every=4), 'thorough': dict(shards=48, maxwords=1000, nmut=3, wrap_every=1)}
TV_CFG = "SPECIFICATION Spec\nINVARIANT Done\nCHECK_DEADLOCK FALSE\n"


def gen_words(wd, J):
    open(os.path.join(wd, 'DG.tla'), 'w').write('---- MODULE DG ----\nEXTENDS DocumentGen\nDGTypes == CMTypes\n====\n')
    open(os.path.join(wd, 'DG.cfg'), 'w').write('SPECIFICATION Spec\nCONSTANT Types <- DGTypes\nCONSTANT SmallAlphabet = 8\nCONSTANT SmallLen = 5\nINVARIANT Emit\nCHECK_DEADLOCK FALSE\n')
    g = tlc.run(os.path.join(wd, 'DG.tla'), os.path.join(wd, 'DG.cfg'), workers=1, timeout=1800)
    if not g['complete']:
        raise tlc.TLCError('DocumentGen failed:\n' + g['out'][-2000:])
    cover = {}
    for x in tlc.reports(g['out']):
        cover.setdefault(x['type'], []).append(x['word'])
    for t in cover:
        cover[t].sort(key=lambda w: (len(w), w))
    return cover, g['distinct'], g['generated']


def shard(wd, k, elems, cover, P, files):
    sd = os.path.join(wd, 'shard%02d' % k)
    os.makedirs(sd, exist_ok=True)
    json.dump(dict(elems=elems, ops=['trip', 'copy', 'parse', 'nested'], cover=cover, maxwords=P['maxwords'], wrap=(k % P['wrap_every'] == 0),
                   nmut=P['nmut'], files=files), open(os.path.join(sd, 'job.json'), 'w'))
    trace = os.path.join(sd, 'trace.ndjson')
    t0 = time.time()
    p = subprocess.run([common.PY, '-W', 'ignore', '-B', os.path.join(common.VERIF, 'harness', 'replay_doc.py'),
                        os.path.join(sd, 'job.json'), trace, os.path.join(sd, 'files')], env=common.impl_env(),
                       stdout=subprocess.PIPE, stderr=subprocess.PIPE, timeout=7200)
    if p.returncode != 0:
        raise RuntimeError('doc replay shard %d failed: %s' % (k, p.stderr.decode()[-3000:]))
    st = json.loads(p.stdout.decode().strip().splitlines()[-1])
    t1 = time.time()
    open(os.path.join(sd, 'DT.tla'), 'w').write('---- MODULE DT ----\nEXTENDS DocumentTrace\n====\n')
    open(os.path.join(sd, 'DT.cfg'), 'w').write(TV_CFG)
    v = tlc.run(os.path.join(sd, 'DT.tla'), os.path.join(sd, 'DT.cfg'), workers=1, timeout=7200, heap='3g',
                env={'TRACE_FILE': trace}, light=True)
    reps = tlc.reports(v['out'])
    done = [x for x in reps if x[0] == 'DONE']
    if not done or done[0][1] != st['events'] or not v['complete']:
        raise tlc.TLCError('DocumentTrace shard %d rejected the trace:\n%s' % (k, v['out'][-2500:]))
    events = [json.loads(l) for l in open(trace)] if st['events'] else []
    divs = []
    for x in reps:
        if x[0] != 'V':
            continue
        e = events[x[1] - 1]
        for clause in sorted(x[2]):
            pid = clause.split('_')[0]
            exc = e['res']['exc'] or e['res2']['exc'] or e['res3']['exc']
            desc = e['variant'] or e['mut']
            obs = hashlib.sha1(json.dumps(e['outp'], sort_keys=True).encode()).hexdigest()[:10] if e['op'] in ('trip', 'parse') else ''
            key = [pid, clause, e['op'], e['elem'], e['kind'], desc, e['target'], e['res']['ok'], exc, k % P['wrap_every'] == 0, obs]
            cls = '%s:%s:%s' % (clause, e['op'], e['elem'])
            if 'text-exterior-blanks' in desc and clause in ('C08_trip', 'C09_trip'):
                cls = 'parser-strips-character-data:' + clause
            elif desc.endswith('text-between-children'):
                cls = 'parser-drops-text-between-children:' + clause
            elif exc == 'AttributeError' and e['elem'] in ('link', 'opus', 'part-link', 'score-part', 'work', 'credit', 'score-partwise', 'group-link', 'identification'):
                cls = 'xlink-type:' + clause + ':' + e['elem']
            elif exc == 'AttributeError':
                cls = 'namespaced-or-name-attribute-not-assignable:' + clause
            elif exc == 'XMLElementChildrenRequired' or (clause == 'C09_trip' and desc.startswith('word:')):
                cls = 'matcher-refuses-or-reorders-valid-children:' + clause + ':' + e['elem']
            divs.append(dict(pid=pid, clause=clause, key=key, cls=cls,
                             what='%s %s <%s> %s %s %s -> ok=%s exc=%s' % (clause, e['op'], e['elem'], e['kind'], desc, e['target'],
                                                                            e['res']['ok'] and e['res2']['ok'], exc),
                             replay=dict(op=e['op'], elem=e['elem'], kind=e['kind'], desc=desc, target=e['target'])))
    samples = [dict(op=e['op'], elem=e['elem'], kind=e['kind'], desc=e['variant'] or e['mut'], ok=e['res']['ok'], exc=e['res']['exc'])
               for e in events[:: max(1, len(events) // 3)][:3]]
    ops = {}
    for e in events:
        kk = e['op'] + (':' + e['kind'] if e['kind'] else '')
        ops[kk] = ops.get(kk, 0) + 1
    if not os.environ.get('VERIF_KEEP'):
        shutil.rmtree(sd, ignore_errors=True)
    return dict(divergences=divs, counts=done[0][2], events=len(events), tv_states=v['distinct'], samples=samples, opcount=ops,
                skipped=st['skipped'], times=dict(replay=round(t1 - t0, 1), tv=round(time.time() - t1, 1)))


def run_campaign(tier):
    J = schema.ensure()
    P = TIERS[tier]
    key = hashlib.sha256(('doc|%s|%s|%s|%s' % (common.repo_digest(), spec_digest(), tier, json.dumps(P, sort_keys=True))).encode()).hexdigest()[:20]
    cdir = os.path.join(common.CACHE, 'campaign_doc')
    os.makedirs(cdir, exist_ok=True)
    res_path = os.path.join(cdir, key + '.json')
    lock = open(os.path.join(cdir, 'lock'), 'w')
    fcntl.flock(lock, fcntl.LOCK_EX)
    try:
        if os.path.exists(res_path) and not os.environ.get('VERIF_NOCACHE'):
            r = json.load(open(res_path))
            r['cache_hit'] = True
            return r
        t0 = time.time()
        wd = tlc.workdir('doc_' + tier)
        cover, gs, gt = gen_words(wd, J)
        elems = sorted(J['elemtype'])
        m = P['shards']
        files = [os.path.join(common.REPO, 'musicxml', 'parser', f) for f in
                 ('test_hello_world.xml', 'test_hello_world_recreated.xml', 'test_bach_partita_3_reduced_created.xml')]
        # the Finale export shipped with the repository: whole in the thorough tier, its first measures in the quick tier
        files.append(os.path.join(common.REPO, 'musicxml', 'parser', 'test_bach_partita_3.xml') + ('' if tier == 'thorough' else '#4'))
        files = [f for f in files if os.path.exists(f.split('#')[0]) and os.path.getsize(f.split('#')[0]) > 0]
        results = []
        with ThreadPoolExecutor(max_workers=common.NCPU) as ex:
            futs = [ex.submit(shard, wd, k, elems[k::m], cover, P, files if k == m - 1 else []) for k in range(m)]
            for f in futs:
                results.append(f.result())
        counts, ops = {}, {}
        for r in results:
            for c, v in r['counts'].items():
                counts[c] = counts.get(c, 0) + v
            for c, v in r['opcount'].items():
                ops[c] = ops.get(c, 0) + v
        out = dict(tier=tier, key=key, wall=round(time.time() - t0, 1), events=sum(r['events'] for r in results), gen_states=gs,
                   gen_transitions=gt, tv_states=sum(r['tv_states'] for r in results), counts=counts, opcount=ops,
                   cover_words=sum(len(v) for v in cover.values()), files=[os.path.basename(f) for f in files],
                   divergences=[d for r in results for d in r['divergences']], samples=[s for r in results for s in r['samples']][:12],
                   skipped=[s for r in results for s in r['skipped']], params=P, shard_times=[r['times'] for r in results])
        tmp = res_path + '.tmp'
        json.dump(out, open(tmp, 'w'))
        os.replace(tmp, res_path)
        for p in glob.glob(os.path.join(cdir, '*.json')):
            if p != res_path:
                try:
                    if json.load(open(p)).get('tier') == tier:
                        os.remove(p)
                except Exception:  # noqa
                    pass
        if not os.environ.get('VERIF_KEEP'):
            shutil.rmtree(wd, ignore_errors=True)
        out['cache_hit'] = False
        return out
    finally:
        fcntl.flock(lock, fcntl.LOCK_UN)
        lock.close()


if __name__ == '__main__':
    import collections
    r = run_campaign(sys.argv[1] if len(sys.argv) > 1 else 'quick')
    print(json.dumps({k: r[k] for k in ('tier', 'wall', 'events', 'gen_states', 'cover_words', 'counts', 'opcount', 'skipped', 'cache_hit')}, indent=1))
    c = collections.Counter((d['pid'], d['clause']) for d in r['divergences'])
    for k, v in sorted(c.items()):
        print(k, v)
    print(r['shard_times'][:8])
