"""project_impl.py -- project the *imported library* (from /repo's working tree) onto the tables that
Translation.tla compares with the schema.  Run with /venv/bin/python and PYTHONPATH=/repo.

Only public surface is read: element classes of musicxml.xmlelement.xmlelement, cls.TYPE,
cls.XSD_TREE.name, a fresh instance's child_container_tree (node content kind, min/max occurrences,
leaf name), TYPE.get_xsd_attributes() (name, type_, is_required), the simple-type classes'
XSD_TREE (restriction base, enumeration, pattern, facets, union members), and the path of the
schema file the library loads.  Nothing is judged here: the output is module Impl.
"""
import sys, os, io, json, hashlib, contextlib

HERE = os.path.dirname(os.path.abspath(__file__))
sys.path.insert(0, os.path.join(os.path.dirname(HERE), 'gen'))
import xsd2tla as G   # stdlib-only helpers: Glushkov, expand, emitters


def cap_first(s):
    return s[0].upper() + s[1:]


def rule_elem(name):     # documented naming rule for element classes
    return 'XML' + ''.join(cap_first(p) for p in name.split('-'))


def rule_type(name, kind):
    if ':' in name:
        name = name.split(':', 1)[1]
    base = ''.join(cap_first(p) for p in name.split('-'))
    return {'complex': 'XSDComplexType', 'simple': 'XSDSimpleType'}[kind] + base


def project():
    out = dict(errors=[])
    with contextlib.redirect_stdout(io.StringIO()):
        import musicxml.xmlelement.xmlelement as X
        import musicxml.xsd.xsdcomplextype as CT
        import musicxml.xsd.xsdsimpletype as STm
        from musicxml.generate_classes import utils as U
        from musicxml.xsd.xsdindicator import XSDSequence, XSDChoice, XSDGroup
        from musicxml.xsd.xsdelement import XSDElement
    out['sha'] = hashlib.sha256(open(U.musicxml_xsd_path, 'rb').read()).hexdigest()
    out['xmlsha'] = hashlib.sha256(open(U.xml_xsd_path, 'rb').read()).hexdigest()
    # ---- element classes
    classes = {}
    for n, c in vars(X).items():
        if isinstance(c, type) and issubclass(c, X.XMLElement) and c is not X.XMLElement and c.__module__ == X.__name__:
            try:
                nm = c.XSD_TREE.name if c.XSD_TREE is not None else '!None'
            except Exception as ex:   # noqa
                nm = '!' + type(ex).__name__
            classes[n] = dict(name=nm, type=getattr(c.TYPE, '__name__', '!None'))
    out['classes'] = classes

    # ---- templates
    def particle(node):
        c = node.content
        mi = node.min_occurrences
        ma = None if node.max_occurrences == 'unbounded' else node.max_occurrences
        if isinstance(c, XSDElement):
            return ('e', c.name, mi, ma)
        kids = [particle(ch) for ch in node.get_children()]
        if isinstance(c, XSDChoice):
            return ('c', kids, mi, ma)
        if isinstance(c, (XSDSequence, XSDGroup)):
            return ('s', kids, mi, ma)
        raise TypeError(type(c).__name__)

    cm = {}
    for n, c in sorted(vars(X).items()):
        if n not in classes:
            continue
        tn = classes[n]['type']
        if not tn.startswith('XSDComplexType') or tn in cm:
            continue
        try:
            with contextlib.redirect_stdout(io.StringIO()):
                e = c()
                tree = e.child_container_tree
            if tree is None:
                continue
            p = particle(tree)
            cm[tn] = G.Glushkov(G.expand(p))
        except Exception as ex:  # noqa
            # no default-constructible instance (e.g. an enumeration-valued element): the type has a
            # template iff the library's container table lists it
            from musicxml.xmlelement.containers import containers
            if tn in containers:
                try:
                    cm[tn] = G.Glushkov(G.expand(particle(containers[tn])))
                except Exception as ex2:  # noqa
                    out['errors'].append(('template', tn, type(ex2).__name__))
                    cm[tn] = None
    out['cm'] = cm

    # ---- attribute tables and simple content
    attrs, sbase = {}, {}
    for n, c in sorted(vars(CT).items()):
        if isinstance(c, type) and issubclass(c, CT.XSDComplexType) and c is not CT.XSDComplexType:
            try:
                lst = c.get_xsd_attributes()
                recs = []
                for a in lst:
                    try:
                        tn = a.type_.__name__
                    except Exception as ex:  # noqa
                        tn = '!' + type(ex).__name__
                    recs.append((str(a.name), tn, bool(a.is_required)))
                attrs[n] = recs
            except Exception as ex:  # noqa
                attrs[n] = [('!' + type(ex).__name__, '!', False)]
            sc = getattr(c, '_SIMPLE_CONTENT', None)
            sbase[n] = sc.__name__ if sc is not None else ''
    out['attrs'] = attrs
    out['sbase'] = sbase

    # ---- simple types as declared in what the library loaded
    st = {}
    for n, c in sorted(vars(STm).items()):
        if isinstance(c, type) and issubclass(c, STm.XSDSimpleType) and c is not STm.XSDSimpleType:
            d = dict(base='', enum=[], pats=[], facets=[], members=[], bases=[b.__name__ for b in c.__bases__])
            try:
                # the class's own declaration snippet (hand-maintained classes carry it as XSD_TREE / _XSD_TREE)
                t = c.__dict__.get('XSD_TREE') or c.__dict__.get('_XSD_TREE') or c.get_xsd_tree()
                u = t.get_union()
                r = t.get_restriction() if u is None else None   # a union's own declaration has no restriction
                if r is not None:
                    d['base'] = r.get_attributes().get('base', '')
                    for ch in r.get_children():
                        if ch.tag == 'enumeration':
                            d['enum'].append(ch.get_attributes()['value'])
                        elif ch.tag == 'pattern':
                            d['pats'].append(ch.get_attributes()['value'])
                        elif ch.tag in ('minInclusive', 'maxInclusive', 'minExclusive', 'maxExclusive', 'minLength'):
                            d['facets'].append((ch.tag, ch.get_attributes()['value']))
                u = t.get_union()
                if u is not None:
                    d['members'] = (u.get_attributes().get('memberTypes') or '').split()
            except Exception as ex:  # noqa
                d['base'] = '!' + type(ex).__name__
            st[n] = d
    out['st'] = st
    return out


def emit(path, schema_json):
    P = project()
    J = json.load(open(schema_json))
    q, tset, tseq, tbool, fun = G.q, G.tset, G.tseq, G.tbool, G.fun
    L = ['---- MODULE Impl ----', '\\* GENERATED by harness/project_impl.py from the imported library -- do not edit.',
         'EXTENDS TLC, Integers, Sequences']
    L.append('ImplSchemaSha == %s' % q(P['sha']))
    L.append('ImplClass == ' + fun([(k, '[name |-> %s, type |-> %s]' % (q(v['name']), q(v['type'])))
                                    for k, v in sorted(P['classes'].items())]))
    ok = {k: g for k, g in P['cm'].items() if g is not None}
    for k, g in sorted(ok.items()):
        L.append('ICM_%s == %s' % (k, G.aut_tla(g)))
    L.append('ImplCM == ' + fun([(k, 'ICM_%s' % k) for k in sorted(ok)]))
    L.append('ImplCMFailed == %s' % tset(q(k) for k, g in sorted(P['cm'].items()) if g is None))
    L.append('ImplAttr == ' + fun([(k, tset('[name |-> %s, type |-> %s, req |-> %s]' % (q(a), q(t), tbool(r))
                                              for (a, t, r) in sorted(set(v)))) for k, v in sorted(P['attrs'].items())]))
    L.append('ImplAttrDup == %s' % tset(q(k) for k, v in sorted(P['attrs'].items())
                                          if len(set(a for a, _, _ in v)) != len(v)))
    L.append('ImplSimpleBase == ' + fun([(k, q(v)) for k, v in sorted(P['sbase'].items())]))
    L.append('ImplST == ' + fun([(k, '[base |-> %s, enum |-> %s, pats |-> %s, facets |-> %s, members |-> %s]' % (
        q(v['base']), tseq(q(e) for e in v['enum']), tset(q(e) for e in v['pats']),
        tset('<<%s,%s>>' % (q(a), q(b)) for a, b in v['facets']), tseq(q(m) for m in v['members'])))
        for k, v in sorted(P['st'].items())]))
    # naming rules (pure string functions of the schema's names)
    L.append('RuleElem == ' + fun([(n, q(rule_elem(n))) for n in sorted(J['elemtype'])]))
    tnames = sorted(set(J['attrs']))
    L.append('RuleComplex == ' + fun([(n, q(rule_type(n, 'complex'))) for n in tnames]))
    snames = sorted(set(J['st']))
    L.append('RuleSimple == ' + fun([(n, q(rule_type(n, 'simple'))) for n in snames]))
    L.append('====')
    with open(path, 'w') as f:
        f.write('\n'.join(L) + '\n')
    return dict(classes=len(P['classes']), templates=len(ok), attr_tables=len(P['attrs']), simple=len(P['st']),
                errors=P['errors'])


if __name__ == '__main__':
    print(json.dumps(emit(sys.argv[1], sys.argv[2])))
