"""sched.py -- systematic two-thread schedules for C20, executed on the real library.

For a workload pair (A, B): thread A runs its workload (the *first* use of its classes in a pristine process:
we fork after importing the library and before anything is used); at the i-th executed library line of A,
thread B is started and runs to completion while A is suspended inside its trace callback (one pre-emption,
line granularity); then A resumes.  One forked child per schedule.  Each thread's observation (text or
exception class of every step of its workload) is recorded next to the observation of its solo run.

argv: pairs.json out.ndjson mode stride
  mode "profile": for every pair run A solo with line counting, report the number of lines and which line
                  indices lie inside a frame of a lazily-initialising function
  mode "run":     execute the schedules listed in pairs.json (each pair carries its list of indices)
"""
import sys, os, io, json, threading, hashlib, contextlib, time

LIB = os.path.join(os.environ.get('PYTHONPATH', '/repo').split(os.pathsep)[0], 'musicxml') + os.sep
LAZY = {'get_xsd_attributes', '_fill_xsd_tree', 'get_xsd_tree', 'elements', '_populate_permitted', '_populate_forced_permitted',
        '_populate_pattern', 'get_xsd_indicator', 'sequence', 'type_', 'name', 'is_required',
        '_check_attribute'}      # attribute handling: the shared tables are read here


def sha(s):
    return hashlib.sha1(s.encode('utf-8')).hexdigest()[:12]


def workloads(X):
    """name -> callable returning a list of step observations.  Each builds, validates and serialises its own tree."""
    def obs(steps):
        out = []
        for fn in steps:
            try:
                with contextlib.redirect_stdout(io.StringIO()):
                    r = fn()
                out.append(['ok', sha(r) if isinstance(r, str) else ''])
            except Exception as ex:  # noqa
                out.append(['exc', type(ex).__name__])
        return out

    def note():
        box = {}
        def mk():
            n = X.XMLNote(default_x=10.5, print_object='yes')
            p = n.add_child(X.XMLPitch())
            p.add_child(X.XMLStep('C'))
            p.add_child(X.XMLOctave(4))
            n.add_child(X.XMLDuration(2))
            n.xml_type = 'quarter'
            box['n'] = n
        def tied():
            n = box['n']
            nt = n.add_child(X.XMLNotations())
            nt.add_child(X.XMLTied(type='start'))
            return n.to_string()
        return obs([mk, lambda: setattr(box['n'], 'color', '#FF0000'), lambda: box['n'].to_string(),
                    lambda: setattr(box['n'], 'nonsense', 1), tied, lambda: X.XMLTied().to_string()])   # last: required attribute omitted

    def words():
        box = {}
        def mk():
            d = X.XMLDirectionType()
            d.add_child(X.XMLWords('hello', font_size=12, font_family='Arial', relative_y=-3, enclosure='none'))
            box['d'] = d
        return obs([mk, lambda: box['d'].to_string(), lambda: X.XMLWords('x', halign='left', nonsense='1'),
                    lambda: X.XMLOctaveShift(type='up').to_string(), lambda: X.XMLOctaveShift().to_string()])

    def measure():
        box = {}
        def mk():
            m = X.XMLMeasure(number='1', width=200)
            a = m.add_child(X.XMLAttributes())
            a.add_child(X.XMLDivisions(1))
            t = a.add_child(X.XMLTime(symbol='common'))
            t.add_child(X.XMLBeats('4'))
            t.add_child(X.XMLBeatType('4'))
            box['m'] = m
        return obs([mk, lambda: box['m'].to_string(), lambda: X.XMLMeasure().to_string()])

    def barline():
        box = {}
        def mk():
            b = X.XMLBarline(location='right')
            b.add_child(X.XMLBarStyle('light-heavy', color='#000000'))
            b.add_child(X.XMLRepeat(direction='backward', times=2))
            box['b'] = b
        return obs([mk, lambda: box['b'].to_string(), lambda: X.XMLRepeat().to_string()])

    def harmony():
        box = {}
        def mk():
            h = X.XMLHarmony(print_frame='no', placement='above')
            r = h.add_child(X.XMLRoot())
            r.add_child(X.XMLRootStep('C', text='C'))
            h.add_child(X.XMLKind('major', use_symbols='yes'))
            box['h'] = h
        return obs([mk, lambda: box['h'].to_string(), lambda: X.XMLDegreeType('add').to_string(), lambda: X.XMLSupports(type='yes', element='x').to_string(),
                    lambda: X.XMLSupports(type='yes').to_string()])
    return dict(note=note, words=words, measure=measure, barline=barline, harmony=harmony)


def tables(X):
    """projection of the lazily filled class-level tables of a few types: unset / length (public class attribute read)"""
    import musicxml.xsd.xsdcomplextype as CT
    out = {}
    for n in ('XSDComplexTypeNote', 'XSDComplexTypeFormattedText', 'XSDComplexTypeMeasure', 'XSDComplexTypeBarline', 'XSDComplexTypeHarmony'):
        v = getattr(CT, n).__dict__.get('_XSD_ATTRIBUTES', None)
        out[n] = -1 if v is None else len(v)
    return out


def run_schedule(X, W, a, b, index, profile=False):
    """returns dict(A=obs, B=obs or None, lines=n, lazy=[indices], tables=projection at the pre-emption)"""
    state = dict(n=0, lazy=[], depth=0, B=None, tables=None)
    lazy_stack = [0]

    def tracer(frame, event, arg):
        fn = frame.f_code.co_filename
        if not fn.startswith(LIB):
            return None
        islazy = frame.f_code.co_name in LAZY or (os.sep + 'xsd' + os.sep) in fn
        if islazy:
            lazy_stack[0] += 1

        def local(fr, ev, ar):
            if ev == 'line':
                state['n'] += 1
                if profile and lazy_stack[0] > 0:
                    state['lazy'].append(state['n'])
                if state['n'] == index and not profile:
                    state['tables'] = tables(X)
                    res = {}
                    t = threading.Thread(target=lambda: res.setdefault('B', W[b]()))
                    t.start()
                    t.join()
                    state['B'] = res.get('B')
            elif ev == 'return' and islazy:
                lazy_stack[0] -= 1
            return local
        return local

    res = {}

    def runA():
        sys.settrace(tracer)
        try:
            res['A'] = W[a]()
        finally:
            sys.settrace(None)
    ta = threading.Thread(target=runA)
    ta.start()
    ta.join()
    return dict(A=res.get('A'), B=state['B'], lines=state['n'], lazy=state['lazy'], tables=state['tables'])


def in_child(fn):
    """run fn() in a forked child (pristine lazies), return its JSON-serialisable result"""
    r, w = os.pipe()
    pid = os.fork()
    if pid == 0:
        try:
            os.close(r)
            out = json.dumps(fn())
            os.write(w, out.encode())
        except BaseException as ex:  # noqa
            os.write(w, json.dumps(dict(error=repr(ex))).encode())
        finally:
            os._exit(0)
    os.close(w)
    chunks = []
    while True:
        c = os.read(r, 65536)
        if not c:
            break
        chunks.append(c)
    os.close(r)
    os.waitpid(pid, 0)
    return json.loads(b''.join(chunks).decode())


def main():
    pairs = json.load(open(sys.argv[1]))
    mode = sys.argv[3]
    with contextlib.redirect_stdout(io.StringIO()):
        import musicxml.xmlelement.xmlelement as X
    W = workloads(X)
    out = []
    if mode == 'profile':
        for p in pairs:
            r = in_child(lambda: run_schedule(X, W, p['a'], p['b'], 0, profile=True))
            out.append(dict(a=p['a'], b=p['b'], lines=r['lines'], lazy=r['lazy']))
    else:
        solo = {}
        for name in W:
            solo[name] = in_child(lambda: W[name]())
        for p in pairs:
            for i in p['indices']:
                r = in_child(lambda: run_schedule(X, W, p['a'], p['b'], i))
                out.append(dict(a=p['a'], b=p['b'], index=i, A=r.get('A'), B=r.get('B'), soloA=solo[p['a']], soloB=solo[p['b']],
                                tables=r.get('tables') or {}, error=r.get('error', '')))
    with open(sys.argv[2], 'w') as f:
        for rec in out:
            f.write(json.dumps(rec) + '\n')
    print(json.dumps(dict(records=len(out))))


if __name__ == '__main__':
    main()
