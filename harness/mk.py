"""mk.py -- builds minimal schema-valid instances of any element from the schema tables (spec/schema.json).

A driver utility: it only *constructs inputs* (shortest word of the content model, first enumeration
literal, smallest in-range number, shortest pattern match, required attributes).  It never judges.
Run inside the implementation process (PYTHONPATH=/repo).
"""
import json, os, io, contextlib
from collections import deque

HERE = os.path.dirname(os.path.abspath(__file__))
VERIF = os.path.dirname(HERE)


def cap_first(s):
    return s[0].upper() + s[1:]


def rule_elem(name):
    return 'XML' + ''.join(cap_first(p) for p in name.split('-'))


class Unconstructible(Exception):
    pass


class SchemaTables:
    """schema-only part (no library import): valid values, shortest / short words of the content models"""

    def __init__(self, J=None):
        self.J = J or json.load(open(os.path.join(VERIF, 'spec', 'schema.json')))
        self._short = {}
        self._val = {}
        self._plan = {}

    # ---- values ---------------------------------------------------------------------
    def shortest_pattern(self, pid):
        a = self.J['pats'][pid - 1]
        if a['nullable']:
            return ''
        lab = a['lab']
        fol = {int(k): v for k, v in a['follow'].items()}

        def pick(cls):
            for lo, hi in cls:
                for pref in (ord('a'), ord('1'), ord('A')):
                    if lo <= pref <= hi:
                        return chr(pref)
            return chr(cls[0][0])
        dq = deque((p, pick(lab[p - 1])) for p in a['first'])
        seen = set(a['first'])
        while dq:
            p, w = dq.popleft()
            if p in a['last']:
                return w
            for q in fol[p]:
                if q not in seen:
                    seen.add(q)
                    dq.append((q, w + pick(lab[q - 1])))
        raise Unconstructible('pattern %d' % pid)

    def value(self, st):
        """a Python value valid for simple type st"""
        if st in self._val:
            return self._val[st]
        d = self.J['st'][st]
        if d['union']:
            v = self.value(d['union'][0])
        elif d['hasEnum']:
            v = d['enum'][0]
        elif d['prim'] == 'decimal':
            v = 1
            if d['hasMin']:
                lo = d['minV'] + (1 if d['minEx'] else 0)
                if lo > v:
                    v = lo
            if d['hasMax'] and v > d['maxV']:
                v = d['maxV']
        elif d['prim'] == 'date':
            v = '2000-01-01'
        elif d['pats']:
            # conjunction of pattern groups: take the shortest match of the most derived group and hope
            # it satisfies the inherited ones (true for every MusicXML type; checked by the C05 campaign)
            v = self.shortest_pattern(sorted(d['pats'][-1])[0])
        else:
            v = 'x' * max(1, d['minLen'])
        self._val[st] = v
        return v

    # ---- words ----------------------------------------------------------------------
    def shortest_word(self, t):
        if t in self._short:
            return self._short[t]
        a = self.J['cm'][t]
        if a['nullable']:
            self._short[t] = []
            return []
        lab = a['lab']
        fol = {int(k): v for k, v in a['follow'].items()}
        dq = deque((p, [lab[p - 1]]) for p in sorted(a['first']))
        seen = set(a['first'])
        while dq:
            p, w = dq.popleft()
            if p in a['last']:
                self._short[t] = w
                return w
            for q in fol[p]:
                if q not in seen:
                    seen.add(q)
                    dq.append((q, w + [lab[q - 1]]))
        raise Unconstructible(t)

    def words(self, t, n):
        """accepted words of CM[t] up to length n, shortest first"""
        a = self.J['cm'][t]
        lab = a['lab']
        fol = {int(k): v for k, v in a['follow'].items()}
        out = [[]] if a['nullable'] else []
        level = {}
        for p in a['first']:
            level.setdefault((lab[p - 1],), set()).add(p)
        for _ in range(n):
            nxt = {}
            for w, S in sorted(level.items()):
                if S & set(a['last']):
                    out.append(list(w))
                for p in S:
                    for q in fol[p]:
                        nxt.setdefault(w + (lab[q - 1],), set()).add(q)
            level = nxt
        return out


    def word_through(self, t, sym):
        """a shortest accepted word of CM[t] that contains sym"""
        from collections import deque
        a = self.J['cm'][t]
        lab = a['lab']
        fol = {int(k): v for k, v in a['follow'].items()}
        best = None
        # shortest path to each position, and from each position to acceptance
        to = {}
        dq = deque()
        for p in sorted(a['first']):
            to[p] = [p]
            dq.append(p)
        while dq:
            p = dq.popleft()
            for q2 in fol[p]:
                if q2 not in to:
                    to[q2] = to[p] + [q2]
                    dq.append(q2)
        frm = {p: [] for p in a['last']}
        dq = deque(a['last'])
        pred = {}
        for p, qs in fol.items():
            for q2 in qs:
                pred.setdefault(q2, []).append(p)
        while dq:
            q2 = dq.popleft()
            for p in pred.get(q2, []):
                if p not in frm:
                    frm[p] = [q2] + frm[q2]
                    dq.append(p)
        for p in range(1, len(lab) + 1):
            if lab[p - 1] == sym and p in to and p in frm:
                w = [lab[x - 1] for x in to[p] + frm[p]]
                if best is None or len(w) < len(best):
                    best = w
        return best


class Factory(SchemaTables):
    def __init__(self, J=None):
        SchemaTables.__init__(self, J)
        with contextlib.redirect_stdout(io.StringIO()):
            import musicxml.xmlelement.xmlelement as X
        self.X = X

    # ---- elements -------------------------------------------------------------------
    def plan(self, name, lenient=False):
        """(class, value, kwargs, child names) for a minimal valid instance.  lenient: leave out required
        attributes that the library cannot express (namespaced ones) instead of giving up -- used only for
        the element under test, whose to_string() is then expected to be refused"""
        if lenient:
            try:
                return self.plan(name)
            except Unconstructible:
                pass
        if name in self._plan and not lenient:
            return self._plan[name]
        J = self.J
        t = J['elemtype'][name]
        cls = getattr(self.X, rule_elem(name), None)
        if cls is None:
            raise Unconstructible('no class for ' + name)
        kwargs = {}
        value = ''
        kids = []
        if J['elemkind'][name] == 'simple':
            value = self.value(t)
        else:
            for (an, at, rq) in J['attrs'][t]:
                if rq:
                    if ':' in an:
                        if lenient:
                            continue
                        raise Unconstructible('%s requires namespaced attribute %s' % (name, an))
                    kwargs[an.replace('-', '_')] = self.value(at)
            if J['sbase'][t]:
                value = self.value(J['sbase'][t])
            if t in J['cm']:
                kids = self.shortest_word(t)
        if lenient:
            return (cls, value, kwargs, kids)
        self._plan[name] = (cls, value, kwargs, kids)
        if kids == [] and t in J.get('cm', {}):
            # the library is known to refuse some valid minimal contents (e.g. an empty <key/>); as a *child
            # factory* we need instances it serialises, so fall back to the next shortest accepted words
            if not self._serialises(name):
                for w in self.words(t, 3):
                    if not w:
                        continue
                    self._plan[name] = (cls, value, kwargs, w)
                    if self._serialises(name):
                        break
                else:
                    self._plan[name] = (cls, value, kwargs, kids)
        return self._plan[name]

    def _serialises(self, name):
        try:
            with contextlib.redirect_stdout(io.StringIO()):
                self.mk(name).to_string()
            return True
        except Exception:  # noqa
            return False

    def elem_for_type(self, t):
        """a representative element name bound to complex type t (first in name order that can be built)"""
        for n in sorted(self.J['elemtype']):
            if self.J['elemtype'][n] == t:
                try:
                    self.mk(n, bare=True, lenient=True)
                    return n
                except Unconstructible:
                    continue
        raise Unconstructible('no constructible element of type ' + t)

    def mk(self, name, xsd_check=True, bare=False, lenient=False):
        """fresh minimal valid instance; bare=True: required attributes and value but no children"""
        cls, value, kwargs, kids = self.plan(name, lenient)
        try:
            if value == '':
                e = cls(xsd_check=xsd_check, **kwargs)
            else:
                e = cls(value, xsd_check=xsd_check, **kwargs)
            if not bare:
                for k in kids:
                    e.add_child(self.mk(k))
        except Unconstructible:
            raise
        except Exception as ex:   # noqa  -- the library refuses our minimal instance: report, do not hide
            if lenient:
                # element under test: build it without the attributes whose assignment the library cannot perform
                good = {}
                for k, v in kwargs.items():
                    try:
                        cls(value, xsd_check=xsd_check, **{k: v}) if value != '' else cls(xsd_check=xsd_check, **{k: v})
                        good[k] = v
                    except Exception:   # noqa
                        pass
                try:
                    e = cls(value, xsd_check=xsd_check, **good) if value != '' else cls(xsd_check=xsd_check, **good)
                    if not bare:
                        for k in kids:
                            e.add_child(self.mk(k))
                    return e
                except Exception:   # noqa
                    pass
            raise Unconstructible('%s: %s' % (name, type(ex).__name__))
        return e
