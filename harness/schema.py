"""Keeps spec/Schema.tla and spec/schema.json in step with the pinned XSD and the generator."""
import os, sys, json, hashlib, subprocess
from .common import VERIF

SPEC = os.path.join(VERIF, 'spec')


def pinned_ok():
    sums = open(os.path.join(VERIF, 'schema', 'SHA256SUMS')).read().split('\n')
    for line in sums:
        if line.strip():
            h, fn = line.split()
            if hashlib.sha256(open(os.path.join(VERIF, 'schema', fn), 'rb').read()).hexdigest() != h:
                raise RuntimeError('pinned schema copy %s does not match SHA256SUMS' % fn)


def ensure():
    pinned_ok()
    tla = os.path.join(SPEC, 'Schema.tla')
    js = os.path.join(SPEC, 'schema.json')
    gen = os.path.join(VERIF, 'gen', 'xsd2tla.py')
    stale = not (os.path.exists(tla) and os.path.exists(js))
    if not stale:
        m = min(os.path.getmtime(tla), os.path.getmtime(js))
        stale = m < os.path.getmtime(gen) or m < os.path.getmtime(os.path.join(VERIF, 'schema', 'musicxml_4_0.xsd'))
    if stale:
        subprocess.run([sys.executable, gen, tla, js], check=True, stdout=subprocess.DEVNULL)
    return json.load(open(js))
