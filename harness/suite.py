"""suite.py -- the repository's own test suite executed under the recorder (harness/suite_recorder.py, loaded as a pytest
plugin from /verif; nothing in /repo is edited) and every recorded call judged by TLC (ElementTrace).  This is how the
weak assertions of existing tests become strong: each of their steps is checked against every clause."""
import os, json, time, hashlib, subprocess, shutil, fcntl
from . import common, tlc, schema, campaign

TV_CFG = "SPECIFICATION Spec\nINVARIANT Done\nCHECK_DEADLOCK FALSE\n"


def run_suite():
    J = schema.ensure()
    key = hashlib.sha256(('suite|%s|%s' % (common.repo_digest(), campaign.spec_digest())).encode()).hexdigest()[:20]
    cdir = os.path.join(common.CACHE, 'suite')
    os.makedirs(cdir, exist_ok=True)
    res_path = os.path.join(cdir, key + '.json')
    lock = open(os.path.join(cdir, 'lock'), 'w')
    fcntl.flock(lock, fcntl.LOCK_EX)
    try:
        if os.path.exists(res_path) and not os.environ.get('VERIF_NOCACHE'):
            r = json.load(open(res_path))
            r['cache_hit'] = True
            return r
        t0 = time.time()
        wd = tlc.workdir('suite')
        trace = os.path.join(wd, 'trace.ndjson')
        e = common.impl_env()
        e['PYTHONPATH'] = common.REPO + os.pathsep + os.path.join(common.VERIF, 'harness')
        e['VERIF_SUITE_TRACE'] = trace
        e['VERIF_SCHEMA_JSON'] = os.path.join(common.VERIF, 'spec', 'schema.json')
        p = subprocess.run([common.PY, '-m', 'pytest', '-q', '-p', 'no:cacheprovider', '-p', 'suite_recorder', '--timeout=900'],
                           cwd=common.REPO, env=e, stdout=subprocess.PIPE, stderr=subprocess.STDOUT, timeout=3600)
        tail = p.stdout.decode('utf-8', 'replace').strip().splitlines()[-1] if p.stdout else ''
        if not os.path.exists(trace):
            raise RuntimeError('the recorder produced no trace: ' + p.stdout.decode('utf-8', 'replace')[-1500:])
        events = [json.loads(l) for l in open(trace)]
        open(os.path.join(wd, 'TV.tla'), 'w').write('---- MODULE TV ----\nEXTENDS ElementTrace\n====\n')
        open(os.path.join(wd, 'TV.cfg'), 'w').write(TV_CFG)
        v = tlc.run(os.path.join(wd, 'TV.tla'), os.path.join(wd, 'TV.cfg'), workers=1, timeout=3600, env={'TRACE_FILE': trace})
        reps = tlc.reports(v['out'])
        done = [x for x in reps if x[0] == 'DONE']
        broken = [x for x in reps if x[0] == 'BROKEN']
        if not done or done[0][1] != len(events) or broken or not v['complete']:
            raise tlc.TLCError('ElementTrace rejected the suite trace: %s %s\n%s' % (done[:1], broken[:3], v['out'][-2000:]))
        divs = []
        for x in reps:
            if x[0] != 'V':
                continue
            ev = events[x[1] - 1]
            chain = []
            c = ev
            while True:
                chain.append([c['op'], c['sym'], c['idx']])
                if not c['parent']:
                    break
                c = events[c['parent'] - 1]
            chain.reverse()
            for clause in sorted(x[2]):
                pid = clause.split('_')[0]
                divs.append(dict(pid=pid, clause=clause, cls='%s:suite:%s' % (clause, ev['type']),
                                 key=[pid, clause, 'suite', ev['test'], ev['type'], chain, ev['res']['ok'], ev['res']['exc'], ev['post']['ordw']],
                                 what='%s in %s: %s history %s -> ok=%s exc=%s children=%s' % (clause, ev['test'], ev['type'], json.dumps(chain),
                                                                                                ev['res']['ok'], ev['res']['exc'], ev['post']['ordw']),
                                 replay=dict(test=ev['test'], type=ev['type'], chain=chain)))
        ops = {}
        for ev in events:
            ops[ev['op']] = ops.get(ev['op'], 0) + 1
        out = dict(events=len(events), counts=done[0][2], tv_states=v['distinct'], divergences=divs, pytest=tail, opcount=ops,
                   wall=round(time.time() - t0, 1),
                   samples=[dict(test=e_['test'], type=e_['type'], op=e_['op'], sym=e_['sym'], ok=e_['res']['ok']) for e_ in events[:: max(1, len(events) // 3)][:3]])
        json.dump(out, open(res_path + '.tmp', 'w'))
        os.replace(res_path + '.tmp', res_path)
        if not os.environ.get('VERIF_KEEP'):
            shutil.rmtree(wd, ignore_errors=True)
        out['cache_hit'] = False
        return out
    finally:
        fcntl.flock(lock, fcntl.LOCK_UN)
        lock.close()
