"""campaign_values.py -- the Values campaign: TLC (ValuesGen) derives the tokens for every simple type from the
schema tables, the replayer offers them at every attribute / text slot of every element class on the real
library, TLC (ValuesTrace) judges every recorded step.  Shared by C04 C05 (and contributes to C10 C15 C16 C19).
"""
import os, sys, json, time, hashlib, subprocess, shutil, fcntl, glob
from concurrent.futures import ThreadPoolExecutor
from . import common, tlc, schema
from .campaign import spec_digest, tset

TV_CFG = "SPECIFICATION Spec\nINVARIANT Done\nCHECK_DEADLOCK FALSE\n"
TIERS = {'quick': dict(reduced=5, shards=32, gen_shards=8), 'thorough': dict(reduced=10000, shards=48, gen_shards=8)}


def gen_tokens(wd, types, k):
    sd = os.path.join(wd, 'gen%02d' % k)
    os.makedirs(sd, exist_ok=True)
    with open(os.path.join(sd, 'VG.tla'), 'w') as f:
        f.write('---- MODULE VG ----\nEXTENDS ValuesGen\nVGTypes == %s\n====\n' % tset(types))
    with open(os.path.join(sd, 'VG.cfg'), 'w') as f:
        f.write('SPECIFICATION Spec\nCONSTANT Types <- VGTypes\nINVARIANT Emit\nCHECK_DEADLOCK FALSE\n')
    g = tlc.run(os.path.join(sd, 'VG.tla'), os.path.join(sd, 'VG.cfg'), workers=1, timeout=1800, heap='2g', light=True)
    if not g['complete']:
        raise tlc.TLCError('ValuesGen failed:\n' + g['out'][-3000:])
    toks = {}
    for x in tlc.reports(g['out']):
        toks.setdefault(x['st'], []).append(x['tok'])
    for st in toks:   # deterministic order: valid-looking first is not known here, so sort by (kind, text)
        toks[st].sort(key=lambda t: ({'str': 0, 'int': 1, 'float': 2, 'special': 3, 'none': 4}[t['kind']], t['s'], t['m'], t['e']))
    return toks, g['distinct'], g['generated']


def tokstr(t):
    return t['kind'] + ':' + ''.join(chr(c) for c in t['s'])


def shard_pipeline(wd, k, elems, tokens, full, reduced):
    sd = os.path.join(wd, 'shard%02d' % k)
    os.makedirs(sd, exist_ok=True)
    json.dump(dict(elems=elems, tokens=tokens, full=full, reduced=reduced), open(os.path.join(sd, 'job.json'), 'w'))
    trace = os.path.join(sd, 'trace.ndjson')
    t0 = time.time()
    p = subprocess.run([common.PY, '-W', 'ignore', '-B', os.path.join(common.VERIF, 'harness', 'replay_values.py'),
                        os.path.join(sd, 'job.json'), trace], env=common.impl_env(), stdout=subprocess.PIPE,
                       stderr=subprocess.PIPE, timeout=7200)
    if p.returncode != 0:
        raise RuntimeError('values replay shard %d failed: %s' % (k, p.stderr.decode()[-3000:]))
    rstats = json.loads(p.stdout.decode().strip().splitlines()[-1])
    t1 = time.time()
    open(os.path.join(sd, 'VT.tla'), 'w').write('---- MODULE VT ----\nEXTENDS ValuesTrace\n====\n')
    open(os.path.join(sd, 'VT.cfg'), 'w').write(TV_CFG)
    v = tlc.run(os.path.join(sd, 'VT.tla'), os.path.join(sd, 'VT.cfg'), workers=1, timeout=7200, heap='3g',
                env={'TRACE_FILE': trace}, light=True)
    reps = tlc.reports(v['out'])
    done = [x for x in reps if x[0] == 'DONE']
    broken = [x for x in reps if x[0] == 'BROKEN']
    if not done or done[0][1] != rstats['events'] or broken or not v['complete']:
        raise tlc.TLCError('values TV shard %d rejected the trace: done=%s broken=%s\n%s' % (k, done[:1], broken[:3], v['out'][-2000:]))
    events = [json.loads(l) for l in open(trace)] if rstats['events'] else []
    divs = []
    for x in reps:
        if x[0] != 'V':
            continue
        e = events[x[1] - 1]
        for clause in sorted(x[2]):
            divs.append(divergence(e, clause, events))
    samples = [dict(elem=e['elem'], op=e['op'], surface=e['surface'], name=e['name'], tok=tokstr(e['tok']), ok=e['res']['ok'],
                    exc=e['res']['exc']) for e in events[1::max(1, len(events) // 3)][:3]]
    ops = {}
    for e in events:
        kk = e['op'] + ('' if e['res']['ok'] else '!')
        ops[kk] = ops.get(kk, 0) + 1
    if not os.environ.get('VERIF_KEEP'):
        os.remove(trace)
    return dict(divergences=divs, counts=done[0][2], events=len(events), tv_states=v['distinct'], samples=samples,
                skipped=rstats['skipped'], opcount=ops, times=dict(replay=round(t1 - t0, 1), tv=round(time.time() - t1, 1)))


def divergence(e, clause, events):
    pid = clause.split('_')[0]
    ctx = []
    if e['op'] in ('tostring', 'get') and e['parent']:
        p = events[e['parent'] - 1]
        ctx = [p['op'], p['surface'], p['name'], tokstr(p['tok']), p['res']['ok']]
        if p['parent'] and p['op'] != 'new':
            pp = events[p['parent'] - 1]
            ctx += [pp['op'], pp['name'], tokstr(pp['tok'])]
    em = [[a, ''.join(chr(c) for c in v)] for a, v in e['em']['attrs']]
    key = [pid, clause, e['elem'], e['op'], e['surface'], e['name'], tokstr(e['tok']), e['res']['ok'], e['res']['exc'], ctx,
           em if clause in ('C04_names', 'C05_sound', 'C05_notext') else []]
    what = '%s <%s> %s(%s) name=%s token=%s -> ok=%s exc=%s%s' % (
        clause, e['elem'], e['op'], e['surface'], e['name'], tokstr(e['tok']), e['res']['ok'], e['res']['exc'],
        (' after ' + json.dumps(ctx) + ' emitted ' + json.dumps(em)) if ctx else '')
    cls = '%s:%s:%s' % (clause, e['ctype'] or e['stype'], (e['name'] or e['op']))
    # finding classes by root cause where it is recognisable from the probe itself (naming only; nothing is judged here)
    flat = json.dumps(key)
    if e['ctype'] in ('link', 'opus', 'part-link'):
        cls = 'xlink-type:%s:%s' % (clause, e['ctype'])
    elif e['name'] in ('lang', 'space') or '"lang"' in flat or '"space"' in flat:
        cls = 'xml-namespace-attribute:%s' % clause
    elif e['name'] == 'name' or '"name"' in flat:
        cls = 'name-collides-with-python-property:%s' % clause
    elif 'str:a, ' in flat or (e['ctype'] == 'measure' and ('"text"' in flat)):
        cls = 'pattern-matched-without-whitespace-collapse:%s' % clause
    elif '2023-02-30' in flat:
        cls = 'date-calendar-not-checked:%s' % clause
    return dict(pid=pid, clause=clause, key=key, cls=cls, what=what,
                replay=dict(elem=e['elem'], op=e['op'], surface=e['surface'], name=e['name'], tok=e['tok'], ctx=ctx,
                            observed=dict(ok=e['res']['ok'], exc=e['res']['exc'], post=e['post'], em=em)))


def run_campaign(tier):
    J = schema.ensure()
    P = TIERS[tier]
    key = hashlib.sha256(('values|%s|%s|%s|%s' % (common.repo_digest(), spec_digest(), tier, json.dumps(P, sort_keys=True))).encode()).hexdigest()[:20]
    cdir = os.path.join(common.CACHE, 'campaign_values')
    os.makedirs(cdir, exist_ok=True)
    res_path = os.path.join(cdir, key + '.json')
    lock = open(os.path.join(cdir, 'lock'), 'w')
    fcntl.flock(lock, fcntl.LOCK_EX)
    try:
        if os.path.exists(res_path) and not os.environ.get('VERIF_NOCACHE'):
            r = json.load(open(res_path))
            r['cache_hit'] = True
            return r
        t0 = time.time()
        wd = tlc.workdir('values_' + tier)
        stypes = sorted(J['st'])
        n = P['gen_shards']
        tokens, gs, gt = {}, 0, 0
        with ThreadPoolExecutor(max_workers=common.NCPU) as ex:
            futs = [ex.submit(gen_tokens, wd, stypes[i::n], i) for i in range(n)]
            for f in futs:
                t, a, b = f.result()
                tokens.update(t)
                gs += a
                gt += b
        elems = sorted(J['elemtype'])
        seen, full = set(), []
        for e in elems:       # the first element of every type gets every token
            t = J['elemtype'][e]
            if t not in seen:
                seen.add(t)
                full.append(e)
        if tier == 'thorough':
            full = elems
        m = P['shards']
        results = []
        with ThreadPoolExecutor(max_workers=common.NCPU) as ex:
            futs = [ex.submit(shard_pipeline, wd, k, elems[k::m], tokens, full, P['reduced']) for k in range(m)]
            for f in futs:
                results.append(f.result())
        counts, ops = {}, {}
        for r in results:
            for c, v in r['counts'].items():
                counts[c] = counts.get(c, 0) + v
            for c, v in r['opcount'].items():
                ops[c] = ops.get(c, 0) + v
        out = dict(tier=tier, key=key, wall=round(time.time() - t0, 1), events=sum(r['events'] for r in results),
                   gen_states=gs, gen_transitions=gt, tv_states=sum(r['tv_states'] for r in results), counts=counts, opcount=ops,
                   tokens=sum(len(v) for v in tokens.values()), simple_types=len(tokens), elements=len(elems),
                   full_elements=len(full), divergences=[d for r in results for d in r['divergences']],
                   samples=[s for r in results for s in r['samples']][:12], skipped=[s for r in results for s in r['skipped']],
                   params=P, shard_times=[r['times'] for r in results])
        tmp = res_path + '.tmp'
        json.dump(out, open(tmp, 'w'))
        os.replace(tmp, res_path)
        for p in glob.glob(os.path.join(cdir, '*.json')):
            if p != res_path:
                try:
                    if json.load(open(p)).get('tier') == tier:
                        os.remove(p)
                except Exception:  # noqa
                    pass
        if not os.environ.get('VERIF_KEEP'):
            shutil.rmtree(wd, ignore_errors=True)
        out['cache_hit'] = False
        return out
    finally:
        fcntl.flock(lock, fcntl.LOCK_UN)
        lock.close()


if __name__ == '__main__':
    import collections
    r = run_campaign(sys.argv[1] if len(sys.argv) > 1 else 'quick')
    print(json.dumps({k: r[k] for k in ('tier', 'wall', 'events', 'gen_states', 'tokens', 'counts', 'opcount', 'skipped', 'cache_hit')}, indent=1))
    c = collections.Counter((d['pid'], d['clause']) for d in r['divergences'])
    for k, v in sorted(c.items()):
        print(k, v)
    c = collections.Counter(d['cls'] for d in r['divergences'])
    print(len(c), 'classes')
    print(r['shard_times'][:6])
