"""Thin runner around TLC: one call = one TLC process; parses the numbers the evidence needs.

Generated modules / cfg files live in a work directory under /verif/.cache; the hand-written
specification is found through -DTLA-Library=/verif/spec.
"""
import os, re, subprocess, shutil, tempfile, time, json

VERIF = os.path.dirname(os.path.dirname(os.path.abspath(__file__)))
SPEC = os.path.join(VERIF, 'spec')
CACHE = os.path.join(VERIF, '.cache')
JAR = '/opt/veriftools/tla/tla2tools.jar:/opt/veriftools/tla/CommunityModules-deps.jar'


class TLCError(Exception):
    pass


def workdir(name):
    d = os.path.join(CACHE, 'work', name)
    shutil.rmtree(d, ignore_errors=True)
    os.makedirs(d, exist_ok=True)
    return d


def run(module_path, cfg_path, workers=1, timeout=1800, env=None, simulate=None, depth=None, seed=None,
        coverage=False, heap='3g', dfs=False, extra_libs=(), light=False):
    """run TLC; returns dict with out, rc, generated, distinct, depth, violated, printed"""
    d = os.path.dirname(os.path.abspath(module_path))
    meta = tempfile.mkdtemp(prefix='meta', dir=d)
    libs = os.pathsep.join([SPEC] + list(extra_libs))
    # light: many short single-worker runs side by side -- one GC thread, C1 only (halves CPU per run)
    gc = ['-XX:+UseSerialGC', '-XX:TieredStopAtLevel=1'] if light else ['-XX:+UseParallelGC']
    cmd = ['java'] + gc + ['-Xmx' + heap, '-Xss256m', '-DTLA-Library=' + libs]
    if dfs:
        cmd.append('-Dtlc2.tool.queue.IStateQueue=StateDeque')
    cmd += ['-cp', JAR, 'tlc2.TLC', '-workers', str(workers), '-metadir', meta, '-noGenerateSpecTE',
            '-config', os.path.abspath(cfg_path)]
    if coverage:
        cmd += ['-coverage', '1']
    if simulate:
        cmd += ['-simulate', simulate]
        if depth:
            cmd += ['-depth', str(depth)]
    if seed is not None:
        cmd += ['-seed', str(seed)]
    cmd.append(os.path.basename(module_path))
    e = dict(os.environ)
    e.pop('JAVA_TOOL_OPTIONS', None)
    if env:
        e.update(env)
    t0 = time.time()
    try:
        p = subprocess.run(cmd, cwd=d, env=e, stdout=subprocess.PIPE, stderr=subprocess.STDOUT, timeout=timeout)
        out = p.stdout.decode('utf-8', 'replace')
        rc = p.returncode
    except subprocess.TimeoutExpired as ex:
        out = (ex.stdout or b'').decode('utf-8', 'replace') + '\nTIMEOUT'
        rc = 124
    finally:
        shutil.rmtree(meta, ignore_errors=True)
    r = dict(out=out, rc=rc, wall=time.time() - t0, cmd=' '.join(cmd))
    m = re.search(r'(\d+) states generated, (\d+) distinct states found', out)
    r['generated'] = int(m.group(1)) if m else 0
    r['distinct'] = int(m.group(2)) if m else 0
    m = re.search(r'depth of the complete state graph search is (\d+)', out)
    r['depth'] = int(m.group(1)) if m else 0
    r['violated'] = re.findall(r'Invariant (\S+) is violated', out) + re.findall(r'Action property (\S+) is violated', out)
    r['complete'] = 'Model checking completed. No error has been found.' in out
    r['error'] = bool(re.search(r'^Error:', out, re.M)) and not r['violated']
    return r


def printed(out):
    """values printed with PrintT, one per line (single worker)"""
    res = []
    for line in out.splitlines():
        if line.startswith('<<') or line.startswith('"') or line.startswith('['):
            res.append(line)
    return res


def coverage_counts(out):
    """action name -> (distinct, total) from -coverage output"""
    cov = {}
    for m in re.finditer(r'^<(\w+) line \d+, col \d+ to line \d+, col \d+ of module (\w+)>: (\d+):(\d+)', out, re.M):
        cov[m.group(2) + '.' + m.group(1)] = (int(m.group(3)), int(m.group(4)))
    return cov


def require_ok(r, what):
    if r['rc'] == 124:
        raise TLCError('%s: TLC timed out' % what)
    if r['error'] or (not r['complete'] and not r['violated'] and 'simulate' not in r['cmd']):
        raise TLCError('%s: TLC failed:\n%s' % (what, r['out'][-3000:]))


def reports(out):
    """values printed through Report!Report: lines of the form "@@<json>" (a TLA+ string literal)"""
    res = []
    for line in out.splitlines():
        if line.startswith('"@@'):
            s = json.loads(line)          # undo the TLA+ string quoting (same escapes as JSON for our content)
            res.append(json.loads(s[2:]))
    return res
