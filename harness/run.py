"""./check <ID> [--tier quick|thorough] [--replay file]"""
import sys, os, argparse, importlib
from . import common


def main():
    ap = argparse.ArgumentParser()
    ap.add_argument('pid')
    ap.add_argument('--tier', default=os.environ.get('VERIF_TIER', 'quick'), choices=['quick', 'thorough'])
    ap.add_argument('--replay', default=None)
    a = ap.parse_args()
    mod = importlib.import_module('harness.checks.' + a.pid.lower())
    return mod.run(a.tier, a.replay)


if __name__ == '__main__':
    common.main_wrapper(main)
