from ._multi import run_multi


def run(tier, replay=None):
    return run_multi('C01', tier, replay)
