"""C13 -- element instances are isolated from one another.
GEN: per-instance histories from ElementGen (restructuring-prone ones preferred) and every interleaving of two of
them from InterleaveGen.  Replay: harness/replay_pairs.py (both instances in one process; probe battery before /
after and in a pristine process).  TV: PairTrace.tla."""
import os, json, time, subprocess, shutil
from concurrent.futures import ThreadPoolExecutor
from .. import common, tlc, schema, campaign

TYPES = ['note', 'harmony', 'lyric', 'key', 'metronome', 'direction-type', 'credit', 'sound', 'part-list', 'attributes',
         'measure', 'notations', 'time', 'barline', 'pitch', 'score-part']
TIERS = {'quick': dict(N=6, K=4, types=10, depth=3), 'thorough': dict(N=14, K=6, types=16, depth=3)}


def score(beh):
    s = 0
    for op in beh:
        if op['op'] in ('remove', 'replace', 'dotelem', 'dotnone') or op.get('fwd', -1) != -1 or op.get('ic') or op.get('exp') == 'reject':
            s += 1
    return s


def run(tier, replay=None):
    t0 = time.time()
    J = schema.ensure()
    P = TIERS[tier]
    wd = tlc.workdir('c13')
    types = TYPES[:P['types']]
    # ---- histories: ElementGen, uniform family
    Pc = dict(campaign.TIERS['quick'])
    Pc.update(K=P['K'], R=2, depth_small=P['depth'], depth_big=P['depth'], families=['uniform'], chks=['TRUE'])
    unc = campaign.unconstructible_names(wd)
    plans = {t: campaign.type_plan(J, t, Pc, unc) for t in types}
    with open(os.path.join(wd, 'G.tla'), 'w') as f:
        f.write('---- MODULE G ----\nEXTENDS ElementGen\n')
        f.write('GTypes == %s\n' % campaign.tset(types))
        for nm, key in (('GSigma', 'sigma'), ('GMulti', 'multi'), ('GRare', 'rare'), ('GRem', 'rem')):
            f.write('%s == %s\n' % (nm, campaign.fun([(t, plans[t][key]) for t in types], campaign.tset)))
        f.write('GRemAdds == %s\n' % campaign.fun([(t, plans[t]['remadds']) for t in types], str))
        f.write('GStride == %s\n' % campaign.fun([(t, plans[t]['stride']) for t in types], str))
        f.write('GDepth == %s\n' % campaign.fun([(t, plans[t]['depth']) for t in types], str))
        f.write('GWord == %s\n====\n' % campaign.fun([(t, plans[t]['wordlen']) for t in types], str))
    open(os.path.join(wd, 'G.cfg'), 'w').write(campaign.GEN_CFG % dict(chks='TRUE', families='"uniform"', maxpersym=2, maxrare=1, planlen=8,
                                               ops=','.join('"%s"' % x for x in Pc['ops'])))
    g = tlc.run(os.path.join(wd, 'G.tla'), os.path.join(wd, 'G.cfg'), workers=1, timeout=1800, heap='3g')
    if not g['complete']:
        raise tlc.TLCError('ElementGen (C13 histories) failed:\n' + g['out'][-2000:])
    hist = {}
    for b in tlc.reports(g['out']):
        hist.setdefault(b['type'], []).append(b['ops'])
    for t in hist:      # restructuring-prone histories first (removes, replaces, forwards, intelligent choice, expected rejections)
        hist[t].sort(key=lambda h: (-score(h), json.dumps(h)))
        hist[t] = hist[t][:P['N']]
    # ---- interleavings
    open(os.path.join(wd, 'IG.tla'), 'w').write('---- MODULE IG ----\nEXTENDS InterleaveGen\n====\n')
    open(os.path.join(wd, 'IG.cfg'), 'w').write('SPECIFICATION Spec\nCONSTANT LA = %d\nCONSTANT LB = %d\nINVARIANT Emit\nCHECK_DEADLOCK FALSE\n' % (P['depth'], P['depth']))
    ig = tlc.run(os.path.join(wd, 'IG.tla'), os.path.join(wd, 'IG.cfg'), workers=1, timeout=600)
    if not ig['complete']:
        raise tlc.TLCError('InterleaveGen failed:\n' + ig['out'][-2000:])
    schedules = sorted(tlc.reports(ig['out']))
    # ---- pairs: same class (all pairs of histories) and different classes (neighbouring types)
    pairs = []
    ts = [t for t in types if t in hist]
    for k, t in enumerate(ts):
        hs = hist[t]
        for i in range(len(hs)):
            for j in range(i, len(hs)):
                pairs.append([t, hs[i], t, hs[j]])
        u = ts[(k + 1) % len(ts)]
        for i in range(min(len(hs), len(hist[u]))):
            pairs.append([t, hs[i], u, hist[u][i]])
    # pristine battery
    p = subprocess.run([common.PY, '-W', 'ignore', '-B', os.path.join(common.VERIF, 'harness', 'replay_pairs.py'), '--battery'],
                       env=common.impl_env(), stdout=subprocess.PIPE, stderr=subprocess.PIPE, timeout=1800)
    if p.returncode != 0:
        raise RuntimeError('battery failed: ' + p.stderr.decode()[-2000:])
    ref = json.loads(p.stdout.decode().strip().splitlines()[-1])['battery']
    n = common.NCPU

    def one(k):
        part = pairs[k::n]
        if not part:
            return None
        sd = os.path.join(wd, 's%02d' % k)
        os.makedirs(sd, exist_ok=True)
        json.dump(dict(pairs=part, schedules=schedules, battery_ref=ref), open(os.path.join(sd, 'job.json'), 'w'))
        trace = os.path.join(sd, 'trace.ndjson')
        q = subprocess.run([common.PY, '-W', 'ignore', '-B', os.path.join(common.VERIF, 'harness', 'replay_pairs.py'),
                            os.path.join(sd, 'job.json'), trace], env=common.impl_env(), stdout=subprocess.PIPE, stderr=subprocess.PIPE, timeout=7200)
        if q.returncode != 0:
            raise RuntimeError('pair replay failed: ' + q.stderr.decode()[-2000:])
        st = json.loads(q.stdout.decode().strip().splitlines()[-1])
        open(os.path.join(sd, 'PT.tla'), 'w').write('---- MODULE PT ----\nEXTENDS PairTrace\n====\n')
        open(os.path.join(sd, 'PT.cfg'), 'w').write('SPECIFICATION Spec\nINVARIANT Done\nCHECK_DEADLOCK FALSE\n')
        v = tlc.run(os.path.join(sd, 'PT.tla'), os.path.join(sd, 'PT.cfg'), workers=1, timeout=7200, heap='3g', env={'TRACE_FILE': trace}, light=True)
        reps = tlc.reports(v['out'])
        done = [x for x in reps if x[0] == 'DONE']
        if not done or done[0][1] != st['events'] or not v['complete']:
            raise tlc.TLCError('PairTrace rejected the trace:\n' + v['out'][-2000:])
        events = [json.loads(l) for l in open(trace)]
        divs = []
        for x in reps:
            if x[0] == 'V':
                e = events[x[1] - 1]
                for clause in sorted(x[2]):
                    if e['op'] == 'battery':
                        key = ['C13', clause, e['when'], e['digest'] == e['ref']]
                        what = 'probe battery digest %s differs from the pristine-process digest %s (%s of a process that ran %d pairs)' % (e['digest'], e['ref'], e['when'], len(part))
                    else:
                        key = ['C13', clause, e['ta'], e['ha'], e['tb'], e['hb'], e['sched'], e['k'], e['obs'], e['solo'], bool(e.get('late'))]
                        what = '%s: %s %s || %s %s, schedule %s, step %d by instance %d observed %s, alone %s' % (
                            clause, e['ta'], json.dumps(e['ha']), e['tb'], json.dumps(e['hb']), e['sched'], e['k'], e['inst'], e['obs'], e['solo'])
                    divs.append(dict(key=key, cls='%s:%s:%s' % (clause, e['ta'], e['tb']), what=what, replay=dict(event=e)))
        return dict(divs=divs, counts=done[0][2], events=len(events), states=v['distinct'],
                    sample=[dict(ta=e['ta'], tb=e['tb'], sched=e['sched'], k=e['k'], obs=e['obs']) for e in events[1:2]])
    # ---- value layer: the accept/reject vector of every typed slot, pristine vs. after everything else (both orders)
    def vb(mode):
        outp = os.path.join(wd, 'vb_%s.json' % mode)
        q = subprocess.run([common.PY, '-W', 'ignore', '-B', os.path.join(common.VERIF, 'harness', 'value_battery.py'), mode, outp],
                           env=common.impl_env(), stdout=subprocess.PIPE, stderr=subprocess.PIPE, timeout=3600)
        if q.returncode != 0:
            raise RuntimeError('value battery failed: ' + q.stderr.decode()[-2000:])
        return json.load(open(outp))
    with ThreadPoolExecutor(max_workers=n) as ex:
        vfut = [ex.submit(vb, m) for m in ('pristine', 'sorted', 'reversed')]
        results = [r for r in ex.map(one, range(n)) if r]
        vbs = {m: f.result() for m, f in zip(('pristine', 'sorted', 'reversed'), vfut)}
    vevents = []
    for mode in ('sorted', 'reversed'):
        for st, dg in sorted(vbs[mode]['digests'].items()):
            vevents.append(dict(op='vbattery', st=st, when=mode, digest=dg, ref=vbs['pristine']['digests'].get(st, '')))
    vtrace = os.path.join(wd, 'vtrace.ndjson')
    with open(vtrace, 'w') as f:
        for e in vevents:
            f.write(json.dumps(e) + '\n')
    open(os.path.join(wd, 'PV.tla'), 'w').write('---- MODULE PV ----\nEXTENDS PairTrace\n====\n')
    open(os.path.join(wd, 'PV.cfg'), 'w').write('SPECIFICATION Spec\nINVARIANT Done\nCHECK_DEADLOCK FALSE\n')
    pv = tlc.run(os.path.join(wd, 'PV.tla'), os.path.join(wd, 'PV.cfg'), workers=1, timeout=1800, env={'TRACE_FILE': vtrace})
    preps = tlc.reports(pv['out'])
    pdone = [x for x in preps if x[0] == 'DONE']
    if not pdone or pdone[0][1] != len(vevents) or not pv['complete']:
        raise tlc.TLCError('PairTrace rejected the value-battery trace:\n' + pv['out'][-2000:])
    vdivs = []
    for x in preps:
        if x[0] == 'V':
            e = vevents[x[1] - 1]
            vdivs.append(dict(key=['C13', 'C13_battery', 'values', e['st'], e['when']], cls='C13_battery:values:' + e['st'],
                              what='slot of simple type %s accepts a different set of values after the other types were used (%s order) than in a pristine process' % (e['st'], e['when']),
                              replay=dict(event=e)))
    divs = [d for r in results for d in r['divs']] + vdivs
    steps = sum(r['counts']['steps'] for r in results)
    cov = dict(states=g['distinct'] + ig['distinct'] + sum(r['states'] for r in results), transitions=g['generated'] + ig['generated'] + steps,
               traces_validated_against_impl=len(pairs) * len(schedules), evaluations=steps,
               distinct_nontrivial=len(pairs) * len(schedules),
               rule='TLC (ElementGen) enumerates per-instance histories of depth %d on %d restructuring-prone types, the %d most restructuring ones per type are paired '
                    '(all same-class pairs, neighbouring different-class pairs); TLC (InterleaveGen) enumerates every interleaving (%d); every (pair, interleaving) is a distinct execution; '
                    'each of its steps exercises C13_solo and C13_frame; the probe battery is compared with a pristine process before and after each shard' % (
                        P['depth'], len(ts), P['N'], len(schedules)),
               pairs=len(pairs), interleavings=len(schedules), steps=steps, batteries=sum(r['counts']['batteries'] for r in results),
               battery_digest=ref, types=ts, value_battery=dict(simple_types=len(vbs['pristine']['digests']), offers_per_slot=vbs['pristine']['offers'], orders=['sorted', 'reversed']), samples=[s for r in results for s in r['sample']][:4])
    if not os.environ.get('VERIF_KEEP'):
        shutil.rmtree(wd, ignore_errors=True)
    return common.conclude('C13', tier, divs, cov, t0, assumptions=[
        'isolation is judged on the public projection (children in both views, parent links, attributes, value) and on step outcomes, not on private fields',
        'bounded: two instances, histories of depth 3, the listed types; the probe battery covers all element-content types with depth <= 3 probes',
        'the library is deterministic for equal histories (the pristine-process battery digest is compared across processes)'])
