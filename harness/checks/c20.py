"""C20 -- independent documents can be built concurrently from several threads.
MC: LazyInit.tla (PlusCal) refines AtomicCache for build-then-publish, fails for publish-then-fill (negative control).
GEN: schedules <<A, pre-emption line i, B>>.  Replay: harness/sched.py (fork per schedule).  TV: LazyTrace.tla."""
import os, json, time, subprocess, shutil
from concurrent.futures import ThreadPoolExecutor
from .. import common, tlc, schema

MC_CFG = """SPECIFICATION Spec
CONSTANT defaultInitValue = "none"
CONSTANT Threads = {%s}
CONSTANT Design = "%s"
CONSTANT Cells <- MCCells
CONSTANT Items <- MCItems
CONSTANT Goal <- %s
INVARIANT ReturnsFull
INVARIANT PublishedComplete
PROPERTY PublishedStable
PROPERTY Refines
CHECK_DEADLOCK FALSE
"""
MC_MOD = """---- MODULE LZ ----
EXTENDS LazyInit
\\* a type with own attributes, a nested group chain of depth 2 and a second group (the shapes get_xsd_attributes resolves)
MCCells == {"T", "G1", "G2", "G3"}
MCItems == [y \\in MCCells |->
   CASE y = "T"  -> <<[lit |-> 1], [ref |-> "G1"], [lit |-> 2], [ref |-> "G3"]>>
     [] y = "G1" -> <<[lit |-> 3], [ref |-> "G2"]>>
     [] y = "G2" -> <<[lit |-> 4], [lit |-> 5]>>
     [] y = "G3" -> <<[lit |-> 6]>>]
MCGoalMixed == [t \\in {1, 2, 3} |-> IF t = 1 THEN "T" ELSE IF t = 2 THEN "G1" ELSE "G3"]
MCGoalSame == [t \\in {1, 2, 3} |-> "T"]
====
"""
PAIRS = [('note', 'note'), ('measure', 'measure'), ('words', 'note'), ('barline', 'barline'), ('harmony', 'words'), ('measure', 'barline'),
         ('barline', 'measure'), ('note', 'words'), ('words', 'words'), ('harmony', 'harmony'), ('barline', 'note')]


def sched(args, timeout=3600):
    p = subprocess.run([common.PY, '-W', 'ignore', '-B', os.path.join(common.VERIF, 'harness', 'sched.py')] + args,
                       env=common.impl_env(), stdout=subprocess.PIPE, stderr=subprocess.PIPE, timeout=timeout)
    if p.returncode != 0:
        raise RuntimeError('sched.py failed: ' + p.stderr.decode()[-2000:])
    return json.loads(p.stdout.decode().strip().splitlines()[-1])


def apalache_obligations(wd, with_negative):
    """Init => IndInv, IndInv /\\ Next => IndInv', IndInv => ReturnsFull for build-then-publish (symbolic, any execution length);
    with_negative: the publish-then-fill instance must fail the inductive step"""
    src = os.path.join(common.VERIF, 'spec_apalache')
    out = {}
    obligations = [('init', 'MC_LazyCell.tla', ['--init=Init', '--inv=IndInv', '--length=0'], True),
                   ('step', 'MC_LazyCell.tla', ['--init=IndInit', '--inv=IndInv', '--length=1'], True),
                   ('implies', 'MC_LazyCell.tla', ['--init=IndInit', '--inv=ReturnsFull', '--length=0'], True)]
    if with_negative:
        obligations.append(('step-publish-then-fill', 'MC_LazyCellBad.tla', ['--init=IndInit', '--inv=IndInv', '--length=1'], False))
    for name, mod, args, expect_ok in obligations:
        p = subprocess.run(['apalache-mc', 'check'] + args + ['--out-dir=' + os.path.join(wd, 'apa_' + name), mod], cwd=src,
                           stdout=subprocess.PIPE, stderr=subprocess.STDOUT, timeout=1800)
        txt = p.stdout.decode('utf-8', 'replace')
        ok = 'EXITCODE: OK' in txt
        out[name] = 'discharged' if ok else 'refuted'
        if ok != expect_ok:
            raise tlc.TLCError('Apalache obligation %s: expected %s\n%s' % (name, 'OK' if expect_ok else 'a counterexample', txt[-1500:]))
    return out


def run(tier, replay=None):
    t0 = time.time()
    schema.ensure()
    wd = tlc.workdir('c20')
    # ---- MC
    open(os.path.join(wd, 'LZ.tla'), 'w').write(MC_MOD)
    mc = {}
    runs = [('build-then-publish', '1,2', 'MCGoalMixed'), ('build-then-publish', '1,2', 'MCGoalSame'),
            ('publish-then-fill', '1,2', 'MCGoalSame')]
    if tier == 'thorough':
        runs += [('build-then-publish', '1,2,3', 'MCGoalMixed'), ('build-then-publish', '1,2,3', 'MCGoalSame')]
    for design, thr, goal in runs:
        cfg = os.path.join(wd, 'LZ_%s_%s_%d.cfg' % (design, goal, len(thr)))
        open(cfg, 'w').write(MC_CFG % (thr, design, goal))
        mc[(design, thr, goal)] = tlc.run(os.path.join(wd, 'LZ.tla'), cfg, workers=common.NCPU, timeout=1800, heap='6g')
    for (design, thr, goal), r in mc.items():
        if design == 'build-then-publish' and not r['complete']:
            raise tlc.TLCError('LazyInit (build-then-publish) violates its properties:\n' + r['out'][-2500:])
        if design == 'publish-then-fill' and not r['violated']:
            raise tlc.TLCError('negative control failed: publish-then-fill should violate ReturnsFull / PublishedComplete')
    # ---- Apalache: the inductive core (one table, 5 threads, executions of any length) -- spec_apalache/LazyCell.tla
    apa = apalache_obligations(wd, with_negative=(tier == 'thorough'))
    # ---- GEN: profile, choose pre-emption lines
    pairs = PAIRS[:6] if tier == 'quick' else PAIRS
    json.dump([dict(a=a, b=b) for a, b in pairs], open(os.path.join(wd, 'pairs.json'), 'w'))
    sched([os.path.join(wd, 'pairs.json'), os.path.join(wd, 'prof.ndjson'), 'profile', '1'])
    prof = [json.loads(l) for l in open(os.path.join(wd, 'prof.ndjson'))]
    jobs = []
    total_lines = 0
    for p in prof:
        total_lines += p['lines']
        lazy = set(p['lazy'])
        if tier == 'thorough':
            idx = list(range(1, p['lines'] + 1))
        else:   # every 2nd line inside a lazily-initialising frame, every 40th elsewhere
            idx = [i for i in range(1, p['lines'] + 1) if (i in lazy and i % 2 == 0) or i % 40 == 0]
        jobs.append(dict(a=p['a'], b=p['b'], indices=idx))
    # shard schedules over processes
    n = common.NCPU
    shards = [[] for _ in range(n)]
    for j in jobs:
        for k in range(n):
            part = j['indices'][k::n]
            if part:
                shards[k].append(dict(a=j['a'], b=j['b'], indices=part))

    def one(k):
        if not shards[k]:
            return 0
        jp = os.path.join(wd, 'job%02d.json' % k)
        json.dump(shards[k], open(jp, 'w'))
        return sched([jp, os.path.join(wd, 'trace%02d.ndjson' % k), 'run', '1'])['records']
    with ThreadPoolExecutor(max_workers=n) as ex:
        counts = list(ex.map(one, range(n)))
    events = []
    for k in range(n):
        tp = os.path.join(wd, 'trace%02d.ndjson' % k)
        if os.path.exists(tp):
            events += [json.loads(l) for l in open(tp)]
    events.sort(key=lambda e: (e['a'], e['b'], e['index']))
    trace = os.path.join(wd, 'trace.ndjson')
    with open(trace, 'w') as f:
        for e in events:
            f.write(json.dumps(e) + '\n')
    # complete lengths of the projected tables: from a solo run of every workload in one fresh process
    code = ("import sys,json,io,contextlib;sys.path.insert(0,%r)\nimport sched\n"
            "with contextlib.redirect_stdout(io.StringIO()):\n import musicxml.xmlelement.xmlelement as X\n"
            "W=sched.workloads(X)\nfor w in W.values(): w()\nprint(json.dumps(sched.tables(X)))") % os.path.join(common.VERIF, 'harness')
    p = subprocess.run([common.PY, '-W', 'ignore', '-B', '-c', code], env=common.impl_env(), stdout=subprocess.PIPE, stderr=subprocess.PIPE)
    if p.returncode != 0:
        raise RuntimeError(p.stderr.decode()[-2000:])
    open(os.path.join(wd, 'full.json'), 'w').write(p.stdout.decode().strip().splitlines()[-1])
    open(os.path.join(wd, 'LT.tla'), 'w').write('---- MODULE LT ----\nEXTENDS LazyTrace\n====\n')
    open(os.path.join(wd, 'LT.cfg'), 'w').write('SPECIFICATION Spec\nINVARIANT Done\nCHECK_DEADLOCK FALSE\n')
    v = tlc.run(os.path.join(wd, 'LT.tla'), os.path.join(wd, 'LT.cfg'), workers=1, timeout=3600, heap='4g',
                env={'TRACE_FILE': trace, 'FULL_FILE': os.path.join(wd, 'full.json')})
    reps = tlc.reports(v['out'])
    done = [x for x in reps if x[0] == 'DONE']
    broken = [x for x in reps if x[0] == 'BROKEN']
    if not done or done[0][1] != len(events) or broken or not v['complete']:
        raise tlc.TLCError('LazyTrace rejected the trace: %s %s\n%s' % (done[:1], broken[:2], v['out'][-2000:]))
    divs, drift = [], 0
    for x in reps:
        if x[0] == 'DRIFT':
            drift += 1
        if x[0] == 'V':
            e = events[x[1] - 1]
            divs.append(dict(key=['C20', 'C20_solo', e['a'], e['b'], e['index'], e['A'], e['B']], cls='C20_solo:%s:%s' % (e['a'], e['b']),
                             what='schedule A=%s pre-empted at library line %d by B=%s: A observed %s (alone: %s), B observed %s (alone: %s)' % (
                                 e['a'], e['index'], e['b'], e['A'], e['soloA'], e['B'], e['soloB']),
                             replay=dict(a=e['a'], b=e['b'], index=e['index'], tables=e['tables'])))
    mcs = {('%s/%s/%s' % k): dict(states=r['distinct'], violated=r['violated'], complete=r['complete']) for k, r in mc.items()}
    cov = dict(states=sum(r['distinct'] for r in mc.values()) + v['distinct'], transitions=sum(r['generated'] for r in mc.values()) + v['generated'],
               traces_validated_against_impl=len(events), evaluations=len(events), distinct_nontrivial=len(events),
               rule='one schedule = (workload A, pre-emption at executed library line i of A\'s first use, workload B run to completion in the gap), '
                    'each in a freshly forked process with pristine lazy tables; all are distinct; every schedule exercises C20_solo (both threads compared with their solo runs). '
                    'quick: every 2nd line inside a lazily-initialising frame + every 40th other line of 5 workload pairs; thorough: every line of 10 pairs',
               schedules=len(events), library_lines_of_first_use=total_lines, pairs=[list(p) for p in pairs], mc=mcs,
               model_drift_count=drift, apalache=apa,
               samples=[dict(a=e['a'], b=e['b'], index=e['index'], A=e['A'], B=e['B'], tables=e['tables']) for e in events[:: max(1, len(events) // 3)][:3]])
    if not os.environ.get('VERIF_KEEP'):
        shutil.rmtree(wd, ignore_errors=True)
    return common.conclude('C20', tier, divs, cov, t0, assumptions=[
        'CPython with the GIL; pre-emption at line granularity through sys.settrace; exactly one pre-emption, two threads, on the code',
        'all interleavings of 2 (thorough: 3) threads only on the model (LazyInit.tla, nested group graph of depth 3)',
        'pristine lazy tables are obtained by forking after import and before first use',
        'workloads cover complex-type attribute tables with nested attribute groups and complexContent bases, per-class XSD trees, simple-type permitted values and sequence element lists'])
