"""Shared body of the checks that are decided by the Element campaign (GEN -> replay -> TV)."""
import time, json
from .. import common, campaign

CLAUSES = {
    'C01': ['C01_word', 'C01_text'], 'C02': ['C02_accept', 'C02_final'], 'C03': ['C03_accepts'],
    'C06': ['C06_add', 'C06_remove', 'C06_replace', 'C06_out'], 'C07': ['C07_ext'],
    'C10': ['C10_frame', 'C10_future'], 'C11': ['C11_obs', 'C11_state'], 'C12': ['C12_reject', 'C12_unique'],
    'C15': ['C15_same', 'C15_noop', 'C15_readchild', 'C15_valframe'], 'C16': ['C16_pure', 'C16_future'], 'C18': ['C18_free', 'C18_same', 'C18_order'],
    'C19': ['C19_class', 'C19_quiet'],
}
ASSUME = [
    'oracle: content-model automata compiled by gen/xsd2tla.py from the pinned XSD (SchemaSelfCheck, C03 cross-check)',
    'children are minimal schema-valid instances built by harness/mk.py; the element under test gets its required attributes',
    'bounded histories: depth / alphabet / word-length bounds of the tier (coverage.params); forward only with leaf indices that exist in the schema particle tree',
    'per property, a branch of the history trie is reported up to its first divergence (pruning, DESIGN 5)',
    'twins assume the library is deterministic for equal histories within one process (checked by C13)',
]


def element_part(pid, tier):
    r = campaign.run_campaign(tier)
    divs = []
    for d in r['divergences']:
        if d['pid'] != pid:
            continue
        cls = '%s:%s:%s:%s' % (d['clause'], d['type'], d['op'], d['exc'] or 'returned')
        divs.append(dict(key=d['key'], cls=cls, what=d['what'], replay=d['replay']))
    per_clause = {c: r['counts'].get(c, 0) for c in CLAUSES[pid]}
    cov = dict(states=r['gen_states'] + r['tv_states'], transitions=r['gen_transitions'] + r['tv_states'],
               traces_validated_against_impl=r['behaviours'], evaluations=r['events'],
               distinct_nontrivial=max(per_clause.values()) if per_clause else 0,
               rule='TLC (ElementGen) enumerates operation histories per element type; each trie node is a distinct history, executed '
                    'on the real library and judged by TLC (ElementTrace) clause by clause. evaluations = recorded steps judged; '
                    'distinct_nontrivial = steps that exercised the most-exercised clause of this property (antecedent true), '
                    'counted by TLC itself (cnt in ElementTrace); per-clause counts in exercised_per_clause',
               exercised_per_clause=per_clause, element_types=r['types'], recorded_steps=r['events'],
               operations=r['opcount'], pruned_behind_first_divergence=r.get('pruned', 0),
               inapplicable_steps=r['inapplicable'], unconstructible_children=r['unconstructible'],
               params=r['params'], campaign_cache_hit=r['cache_hit'], campaign_wall_s=r['wall'],
               samples=r['samples'][:6])
    return divs, cov


def run_elem(pid, tier, replay=None):
    t0 = time.time()
    if replay:
        return replay_one(pid, replay)
    divs, cov = element_part(pid, tier)
    return common.conclude(pid, tier, divs, cov, t0, assumptions=ASSUME)


def replay_one(pid, path):
    """re-execute one recorded divergence on the working tree and re-judge it with TLC"""
    import os, subprocess
    from .. import tlc
    d = json.load(open(path))
    rp = d['replay']
    wd = tlc.workdir('replay_' + pid)
    ops = []
    for k in rp['hist']:
        if k[0] == 'add':
            ops.append(dict(op='add', sym=k[1], fwd=k[2]))
        elif k[0] == 'remove':
            ops.append(dict(op='remove', idx=k[1]))
        elif k[0] in ('replace', 'replacep'):
            ops.append(dict(op=k[0], idx=k[1], sym=k[2]))
        elif k[0] == 'tostring':
            ops.append(dict(op='tostring', ic=k[1]))
        else:
            ops.append(dict(op=k[0], sym=k[1]))
    behaviours = [ops]
    if rp.get('twin'):
        behaviours.append([o for o in (_op(k) for k in rp['twin']['hist'])])
    json.dump([dict(type=rp['type'], chk=rp['chk'], behaviours=behaviours)], open(os.path.join(wd, 'jobs.json'), 'w'))
    trace = os.path.join(wd, 'trace.ndjson')
    p = subprocess.run([common.PY, '-W', 'ignore', '-B', os.path.join(common.VERIF, 'harness', 'replay.py'),
                        os.path.join(wd, 'jobs.json'), trace], env=common.impl_env(), stdout=subprocess.PIPE, stderr=subprocess.PIPE)
    if p.returncode != 0:
        raise RuntimeError(p.stderr.decode()[-2000:])
    open(os.path.join(wd, 'TV.tla'), 'w').write('---- MODULE TV ----\nEXTENDS ElementTrace\n====\n')
    open(os.path.join(wd, 'TV.cfg'), 'w').write(campaign.TV_CFG)
    v = tlc.run(os.path.join(wd, 'TV.tla'), os.path.join(wd, 'TV.cfg'), workers=1, env={'TRACE_FILE': trace})
    events = [json.loads(l) for l in open(trace)]
    bad = 0
    for x in tlc.reports(v['out']):
        if x[0] == 'V':
            e = events[x[1] - 1]
            print('step %d %s -> ok=%s exc=%s children=%s : failing clauses %s' % (x[1], json.dumps(e['hist']), e['res']['ok'],
                  e['res']['exc'], e['post']['ordw'], x[2]))
            if any(c.startswith(pid) for c in x[2]):
                bad += 1
    if bad:
        print('VIOLATION property=%s replay=%s' % (pid, path))
        return 1
    print('replay: no clause of %s fails on the working tree' % pid)
    return 0


def _op(k):
    if k[0] == 'add':
        return dict(op='add', sym=k[1], fwd=k[2])
    if k[0] == 'remove':
        return dict(op='remove', idx=k[1])
    if k[0] in ('replace', 'replacep'):
        return dict(op=k[0], idx=k[1], sym=k[2])
    if k[0] == 'tostring':
        return dict(op='tostring', ic=k[1])
    return dict(op=k[0], sym=k[1])
