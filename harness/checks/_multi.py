"""Checks decided by one or more campaigns: merges divergences and coverage of the campaigns that carry clauses
of the property."""
import time
from .. import common
from . import _elem


def values_part(pid, tier):
    from .. import campaign_values
    r = campaign_values.run_campaign(tier)
    divs = [dict(key=d['key'], cls=d['cls'], what=d['what'], replay=d['replay']) for d in r['divergences'] if d['pid'] == pid]
    per_clause = {c: v for c, v in r['counts'].items() if c.startswith(pid + '_')}
    cov = dict(states=r['gen_states'] + r['tv_states'], transitions=r['gen_transitions'] + r['tv_states'],
               traces_validated_against_impl=r['events'], evaluations=r['events'],
               distinct_nontrivial=max(per_clause.values()) if per_clause else 0,
               rule='TLC (ValuesGen) derives the tokens of each simple type from its definition (enumeration literals, bounds +-1, '
                    'one word per edge of each pattern automaton and its mutants, white-space variants, float magnitudes, bools, '
                    'non-finite); each (element, slot, token, surface) probe is a distinct recorded step judged by TLC (ValuesTrace); '
                    'distinct_nontrivial = steps that exercised the most-exercised clause of this property, counted by TLC',
               exercised_per_clause=per_clause, tokens=r['tokens'], simple_types=r['simple_types'], elements=r['elements'],
               elements_with_all_tokens=r['full_elements'], operations=r['opcount'], skipped_elements=r['skipped'],
               params=r['params'], campaign_cache_hit=r['cache_hit'], campaign_wall_s=r['wall'], samples=r['samples'][:6])
    return divs, cov


def doc_part(pid, tier):
    from .. import campaign_doc
    r = campaign_doc.run_campaign(tier)
    divs = [dict(key=d['key'], cls=d['cls'], what=d['what'], replay=d['replay']) for d in r['divergences'] if d['pid'] == pid]
    per_clause = {c: v for c, v in r['counts'].items() if c.startswith(pid + '_')}
    cov = dict(states=r['gen_states'] + r['tv_states'], transitions=r['gen_transitions'] + r['tv_states'],
               traces_validated_against_impl=r['events'], evaluations=r['events'],
               distinct_nontrivial=max(per_clause.values()) if per_clause else 0,
               rule='TLC (DocumentGen) supplies one valid child word per follow edge of every content model; harness/schemadoc.py (schema tables only, '
                    'no library) builds documents from them (bare and wrapped into a minimal score-partwise), plus all-attribute and exterior-blank variants, '
                    'single-edit mutants, the repository\'s MusicXML files; API-built trees of all 441 element classes for the round trip and deep-copy scenarios. '
                    'Each scenario is a distinct recorded event judged by TLC (DocumentTrace); distinct_nontrivial = events exercising the most-exercised clause of this property, counted by TLC',
               exercised_per_clause=per_clause, scenarios=r['opcount'], cover_words=r['cover_words'], files=r['files'],
               skipped_elements=r['skipped'], params=r['params'], campaign_cache_hit=r['cache_hit'], campaign_wall_s=r['wall'],
               samples=r['samples'][:6])
    return divs, cov


def suite_part(pid, tier):
    from .. import suite
    r = suite.run_suite()
    divs = [dict(key=d['key'], cls=d['cls'], what=d['what'], replay=d['replay']) for d in r['divergences'] if d['pid'] == pid]
    per_clause = {c: v for c, v in r['counts'].items() if c.startswith(pid + '_')}
    cov = dict(states=r['tv_states'], transitions=r['tv_states'], traces_validated_against_impl=r['events'], evaluations=r['events'],
               distinct_nontrivial=max(per_clause.values()) if per_clause else 0,
               rule='the repository\'s own 192 tests run under a recorder (pytest plugin from /verif); every outermost add_child / remove / replace_child / '
                    'to_string / xml_x assignment on an element with a content model is one recorded step judged by TLC (ElementTrace); '
                    'distinct_nontrivial = steps exercising the most-exercised clause of this property',
               exercised_per_clause=per_clause, operations=r['opcount'], pytest=r['pytest'], campaign_cache_hit=r['cache_hit'],
               campaign_wall_s=r['wall'], samples=r['samples'])
    return divs, cov


def mc_part(pid, tier):
    """ElementMC: the clause set as a state machine over the real automata (consistency, Inv_Ext, Inv_Complete)"""
    from .. import element_mc
    r = element_mc.run(tier)
    cov = dict(states=r['states'], transitions=r['transitions'], traces_validated_against_impl=0, evaluations=r['states'],
               distinct_nontrivial=r['states'],
               rule='ElementMC.tla: every reachable state of the clause-defined state machine (<= %d children, %d types) satisfies Inv_Ext '
                    '(completability is invariant, closed under remove / replace), Inv_Complete (a completable bag has a completion), Inv_SubOrd, and '
                    'every call has an outcome that no clause forbids (AddDecidable, RemoveDecidable, ReplaceDecidable, ToStringDecidable, SuccessAllowed); '
                    'this part validates the specification, not the implementation' % (r['max_children'], r['types']),
               element_types=r['types'], wall_s=r['wall'], samples=[dict(invariants=['Inv_Ext', 'Inv_Complete', 'Inv_SubOrd', 'AddDecidable', 'ToStringDecidable'])])
    return [], cov


PARTS = {'element': _elem.element_part, 'values': values_part, 'doc': doc_part, 'suite': suite_part, 'mc': mc_part}
SOURCES = {
    'C04': ['values'], 'C05': ['values'],
    'C08': ['doc'], 'C09': ['doc'], 'C14': ['doc'],
    'C01': ['element', 'suite', 'doc'], 'C02': ['element', 'suite'], 'C06': ['element', 'suite'], 'C07': ['element', 'suite', 'mc'],
    'C11': ['element'], 'C12': ['element', 'suite'], 'C18': ['element', 'suite', 'doc'],
    'C10': ['element', 'values', 'suite'], 'C15': ['element', 'values', 'suite'], 'C16': ['element', 'values', 'doc', 'suite'],
    'C19': ['element', 'values', 'doc', 'suite'],
}
ASSUME_VALUES = [
    'oracle: simple-type tables and pattern automata generated from the pinned XSD; lexical spaces defined in spec/Lexical.tla (guarded by LexicalTest examples)',
    'namespaced attributes are offered under the library\'s Python spelling (local name) and judged under their schema name on the parsed output',
    'undeclared names probed: names the schema declares for other types (incl. those colliding with Python members: name, type, id, number) and one nonsense name',
    '\\c / \\i: tokens use only code points on which XML 1.0 2e and 5e agree; xs:date years restricted to four digits',
]


ASSUME_DOC = [
    'infosets are read with xml.etree (the standard XML parser of the properties); tails are kept, comments / PIs are not content',
    'documents for C09 are generated from spec/schema.json only (harness/schemadoc.py never imports the library); xlink:* / xml:* attributes are written in their namespaced form',
    '"insignificant white space" is read as the schema reads it: element-only content, and values of types whose whiteSpace facet is collapse; exterior blanks of free xs:string text are content',
    'no-silent-loss allows the parser to re-order children (multiset matching of subtrees), not to drop or alter them',
    'the exception class the parser uses for input it refuses is not judged',
]


ASSUME_SUITE = ['the recorder skips elements first seen with children already attached and calls it cannot describe (predicate-form replace_child)']


def merge(covs):
    out = dict(states=0, transitions=0, traces_validated_against_impl=0, evaluations=0, distinct_nontrivial=0, samples=[],
               per_campaign={}, rule='')
    for name, c in covs:
        for k in ('states', 'transitions', 'traces_validated_against_impl', 'evaluations', 'distinct_nontrivial'):
            out[k] += c[k]
        out['samples'] += c['samples'][:4]
        out['per_campaign'][name] = {k: v for k, v in c.items() if k != 'samples'}
        out['rule'] += '[%s] %s  ' % (name, c['rule'])
    return out


def run_multi(pid, tier, replay=None):
    t0 = time.time()
    if replay:
        import json
        rp = json.load(open(replay)).get('replay') or {}
        return replay_values(pid, replay) if 'elem' in rp else _elem.replay_one(pid, replay)
    divs, covs, assume = [], [], []
    for src in SOURCES[pid]:
        d, c = PARTS[src](pid, tier)
        divs += d
        covs.append((src, c))
        assume += {'element': _elem.ASSUME, 'values': ASSUME_VALUES, 'doc': ASSUME_DOC, 'suite': ASSUME_SUITE, 'mc': []}[src]
    return common.conclude(pid, tier, divs, merge(covs), t0, assumptions=assume)


def replay_values(pid, path):
    """re-offer the recorded token(s) at the recorded element on the working tree and re-judge with TLC"""
    import os, json, subprocess
    from .. import tlc, schema
    d = json.load(open(path))
    rp = d['replay']
    J = schema.ensure()
    wd = tlc.workdir('replay_' + pid)
    toks = [dict(kind=rp['tok']['kind'], s=rp['tok']['s'], m=0, e=0)]
    def parse(ts):
        kind, _, text = ts.partition(':')
        return dict(kind=kind, s=[ord(c) for c in text], m=0, e=0)
    for x in rp.get('ctx', []):
        if isinstance(x, str) and ':' in x and x.split(':')[0] in ('str', 'int', 'float', 'special', 'none'):
            toks.append(parse(x))
    toks = [t for t in toks if t['kind'] != 'float'] + [dict(kind='special', s=t['s'], m=0, e=0) for t in toks if t['kind'] == 'float' and False]
    tokens = {st: toks for st in J['st']}
    json.dump(dict(elems=[rp['elem']], tokens=tokens, full=[rp['elem']], reduced=99), open(os.path.join(wd, 'job.json'), 'w'))
    trace = os.path.join(wd, 'trace.ndjson')
    p = subprocess.run([common.PY, '-W', 'ignore', '-B', os.path.join(common.VERIF, 'harness', 'replay_values.py'),
                        os.path.join(wd, 'job.json'), trace], env=common.impl_env(), stdout=subprocess.PIPE, stderr=subprocess.PIPE)
    if p.returncode != 0:
        raise RuntimeError(p.stderr.decode()[-2000:])
    open(os.path.join(wd, 'VT.tla'), 'w').write('---- MODULE VT ----\nEXTENDS ValuesTrace\n====\n')
    open(os.path.join(wd, 'VT.cfg'), 'w').write('SPECIFICATION Spec\nINVARIANT Done\nCHECK_DEADLOCK FALSE\n')
    v = tlc.run(os.path.join(wd, 'VT.tla'), os.path.join(wd, 'VT.cfg'), workers=1, env={'TRACE_FILE': trace})
    events = [json.loads(l) for l in open(trace)]
    bad = 0
    for x in tlc.reports(v['out']):
        if x[0] == 'V':
            e = events[x[1] - 1]
            mine = [c for c in x[2] if c == d['key'][1]]
            if mine and (e['name'] == rp['name'] or e['op'] in ('tostring', 'get', 'setval')):
                print('step %d <%s> %s(%s) name=%s -> ok=%s exc=%s : failing %s' % (x[1], e['elem'], e['op'], e['surface'], e['name'],
                      e['res']['ok'], e['res']['exc'], mine))
                bad += 1
    if bad:
        print('VIOLATION property=%s replay=%s' % (pid, path))
        return 1
    print('replay: clause %s does not fail for this probe on the working tree' % d['key'][1])
    return 0
