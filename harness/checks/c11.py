from ._multi import run_multi


def run(tier, replay=None):
    return run_multi('C11', tier, replay)
