from ._elem import run_elem


def run(tier, replay=None):
    return run_elem('C16', tier, replay)
