"""C03 -- every element class is a faithful translation of its XSD declaration.
Verdict: TLC on Translation.tla (schema constants vs. tables projected from the imported library)."""
import os, time, json, subprocess
from .. import common, tlc, schema

CFG = """SPECIFICATION Spec
VIEW View
INVARIANT LangJudge
INVARIANT TableJudge
CHECK_DEADLOCK FALSE
"""


def classify(x):
    if x[1] in ('attr-missing', 'attr-extra'):
        if x[2] in ('link', 'opus', 'part-link'):
            return 'xlink-attribute-table-unreadable'
        if x[3] in ('xml:lang', 'xml:space', 'lang', 'space'):
            return 'xml-namespace-attribute-renamed'
        if 'AnyURI' in str(x[4]) or '!NameError' in str(x[4]):
            return 'anyuri-type-class-missing'
    return x[1]


ASSUME_STATIC = [
    'schema oracle: gen/xsd2tla.py reading of the pinned XSD copies (guarded by SchemaSelfCheck)',
    'xlink:* attribute types are hand-written from the MusicXML xlink.xsd, which is not in the repository',
    'documented naming rule re-implemented in harness/project_impl.py (rule_elem / rule_type)',
    'dynamic side: clause C03_accepts of the Element campaign (a sequence supplied in document order that the class accepts is a word of '
    'the content model); the converse -- every word is accepted -- is the statement of C02 and is judged and listed there']


def run(tier, replay=None):
    """static part (Translation.tla on the projected tables) + dynamic part (clause C03_accepts of the Element campaign)"""
    from . import _elem, _multi
    t0 = time.time()
    if replay:
        rp = json.load(open(replay)).get('replay') or {}
        if 'hist' in rp:
            return _elem.replay_one('C03', replay)
    sdiv, scov = static_part(tier)
    if scov is None:
        return common.conclude('C03', tier, sdiv, dict(evaluations=1, distinct_nontrivial=0, states=0, transitions=0,
                               traces_validated_against_impl=0, samples=[d['what'][-300:] for d in sdiv]), t0)
    ediv, ecov = _elem.element_part('C03', tier)
    cov = _multi.merge([('static', scov), ('element', ecov)])
    cov['exhaustive'] = False
    return common.conclude('C03', tier, sdiv + ediv, cov, t0, assumptions=ASSUME_STATIC + _elem.ASSUME)


def static_part(tier):
    J = schema.ensure()
    wd = tlc.workdir('c03')
    p = subprocess.run([common.PY, '-W', 'ignore', '-B', os.path.join(common.VERIF, 'harness', 'project_impl.py'),
                        os.path.join(wd, 'Impl.tla'), os.path.join(common.VERIF, 'spec', 'schema.json')],
                       env=common.impl_env(), stdout=subprocess.PIPE, stderr=subprocess.PIPE, timeout=600)
    if p.returncode != 0:
        # the library cannot even be imported / projected: that is a C03 failure of the working tree, not of the machinery
        err = p.stderr.decode('utf-8', 'replace')[-2000:]
        div = [dict(key=['C03', 'projection-failed', err.strip().splitlines()[-1] if err.strip() else ''], cls='projection-failed',
                    what='library could not be imported/projected: ' + err[-400:], replay=dict(cmd='project_impl.py'))]
        return div, None
    info = json.loads(p.stdout.decode().strip().splitlines()[-1])
    with open(os.path.join(wd, 'TranslationMC.tla'), 'w') as f:
        f.write('---- MODULE TranslationMC ----\nEXTENDS Translation\n====\n')
    with open(os.path.join(wd, 'TranslationMC.cfg'), 'w') as f:
        f.write(CFG)
    r = tlc.run(os.path.join(wd, 'TranslationMC.tla'), os.path.join(wd, 'TranslationMC.cfg'), workers=1, timeout=900,
                extra_libs=[wd])
    tlc.require_ok(r, 'Translation')
    if not r['complete']:
        raise tlc.TLCError('Translation did not complete:\n' + r['out'][-2000:])
    reps = tlc.reports(r['out'])
    div = []
    for x in reps:
        assert x[0] == 'C03'
        div.append(dict(key=x, cls=classify(x), what='%s: %s' % (x[1], json.dumps(x[2:])), replay=dict(tuple=x)))
    n_tables = info['classes'] + info['templates'] + info['attr_tables'] + info['simple']
    cov = dict(states=r['distinct'], transitions=r['generated'], traces_validated_against_impl=n_tables,
               exhaustive=True,
               explanation='language part: reachable product of CM[t] and the automaton compiled from the library\'s own template, '
                           'all 94 element-content types, exhausted (complete decision of language equivalence); table part: '
                           'finite equalities over classes, types, attribute tables, simple-content bases, simple-type declarations, schema file hash. '
                           'traces_validated_against_impl counts the implementation tables projected from the imported working tree and compared by TLC '
                           '(%d element classes + %d templates + %d attribute tables + %d simple types).' % (
                               info['classes'], info['templates'], info['attr_tables'], info['simple']),
               evaluations=n_tables, distinct_nontrivial=n_tables,
               rule='one evaluation per projected implementation table; all are distinct; non-trivial = compared against a schema-side table',
               product_states=r['distinct'], disagreements=len(div),
               samples=[dict(type='pitch', schema_automaton=J['cm']['pitch'])] + [d['key'] for d in div[:5]])
    return div, cov
