from ._elem import run_elem


def run(tier, replay=None):
    return run_elem('C06', tier, replay)
