"""C17 -- write() is all-or-nothing and file I/O does not depend on the process locale.
MC: Writer.tla (both designs; the unsafe one is the negative control).  GEN: WriterGen (fault scenarios).
Replay: harness/writer_replay.py in one subprocess per default text encoding.  TV: WriterTrace.tla."""
import os, json, time, subprocess, shutil
from .. import common, tlc, schema

MC_CFG = """SPECIFICATION Spec
CONSTANT Design = "%s"
CONSTANT Nodes <- WNodes
CONSTANT PriorStates <- WPrior
INVARIANT TypeOK
INVARIANT AllOrNothing
INVARIANT Declared
INVARIANT EffectsAgree
CHECK_DEADLOCK FALSE
"""
ENCS = ['utf8', 'ascii', 'latin1', 'cp1252']


def env_for(enc):
    e = common.impl_env()
    for k in ('LC_ALL', 'LC_CTYPE', 'LANG', 'PYTHONUTF8', 'PYTHONIOENCODING'):
        e.pop(k, None)
    if enc == 'ascii':
        e.update(LC_ALL='C', PYTHONCOERCECLOCALE='0')
        return e, ['-X', 'utf8=0']
    e.update(LC_ALL='C.UTF-8')
    return e, []


def run(tier, replay=None):
    t0 = time.time()
    schema.ensure()
    wd = tlc.workdir('c17')
    nodes = 6 if tier == 'quick' else 12
    open(os.path.join(wd, 'W.tla'), 'w').write(
        '---- MODULE W ----\nEXTENDS Writer\nWNodes == 1..%d\nWPrior == {<<>>, <<"">>, <<"old">>}\n====\n' % nodes)
    mc = {}
    for design in ('validate-first', 'open-first', 'check-open-serialise'):
        cfg = os.path.join(wd, 'W_%s.cfg' % design)
        open(cfg, 'w').write(MC_CFG % design)
        r = tlc.run(os.path.join(wd, 'W.tla'), cfg, workers=1, timeout=600)
        mc[design] = r
    if not mc['validate-first']['complete']:
        raise tlc.TLCError('Writer.tla (validate-first) does not satisfy its invariants:\n' + mc['validate-first']['out'][-2000:])
    for bad in ('open-first', 'check-open-serialise'):
        if 'AllOrNothing' not in mc[bad]['violated']:
            raise tlc.TLCError('negative control failed: Writer.tla (%s) should violate AllOrNothing' % bad)
    # GEN
    open(os.path.join(wd, 'WG.tla'), 'w').write('---- MODULE WG ----\nEXTENDS WriterGen\n====\n')
    open(os.path.join(wd, 'WG.cfg'), 'w').write('SPECIFICATION Spec\nCONSTANT NFaults = 11\nINVARIANT Emit\nCHECK_DEADLOCK FALSE\n')
    g = tlc.run(os.path.join(wd, 'WG.tla'), os.path.join(wd, 'WG.cfg'), workers=1, timeout=600)
    if not g['complete']:
        raise tlc.TLCError('WriterGen failed:\n' + g['out'][-2000:])
    scen = sorted(tlc.reports(g['out']), key=lambda s: (s['fail'], s['prior'], s['ic']))
    json.dump(scen, open(os.path.join(wd, 'scen.json'), 'w'))
    # replay under every default text encoding
    events = []
    byscn = {}
    import_failed = []
    for enc in ENCS:
        e, xopts = env_for(enc)
        out = os.path.join(wd, 'trace_%s.ndjson' % enc)
        p = subprocess.run([common.PY] + xopts + ['-W', 'ignore', '-B', os.path.join(common.VERIF, 'harness', 'writer_replay.py'),
                            os.path.join(wd, 'scen.json'), out, enc, os.path.join(wd, 'files')], env=e,
                           stdout=subprocess.PIPE, stderr=subprocess.PIPE, timeout=1800)
        if p.returncode != 0:
            raise RuntimeError('writer replay (%s) failed: %s' % (enc, p.stderr.decode()[-2000:]))
        st = json.loads(p.stdout.decode().strip().splitlines()[-1])
        if st['import_failed']:
            import_failed.append(enc)
        for line in open(out):
            ev = json.loads(line)
            ev['id'] = len(events) + 1
            if enc == 'utf8':
                byscn[ev['scn']] = ev['id']
            else:
                ev['twloc'] = byscn.get(ev['scn'], 0)
            events.append(ev)
    trace = os.path.join(wd, 'trace.ndjson')
    with open(trace, 'w') as f:
        for ev in events:
            f.write(json.dumps(ev) + '\n')
    open(os.path.join(wd, 'WT.tla'), 'w').write('---- MODULE WT ----\nEXTENDS WriterTrace\n====\n')
    open(os.path.join(wd, 'WT.cfg'), 'w').write('SPECIFICATION Spec\nINVARIANT Done\nCHECK_DEADLOCK FALSE\n')
    v = tlc.run(os.path.join(wd, 'WT.tla'), os.path.join(wd, 'WT.cfg'), workers=1, timeout=1800, env={'TRACE_FILE': trace})
    reps = tlc.reports(v['out'])
    done = [x for x in reps if x[0] == 'DONE']
    if not done or done[0][1] != len(events) or not v['complete']:
        raise tlc.TLCError('WriterTrace rejected the trace:\n' + v['out'][-2000:])
    divs, drift = [], []
    for x in reps:
        if x[0] == 'DRIFT':
            drift.append(events[x[1] - 1]['scn'] + ':' + events[x[1] - 1]['enc'])
        if x[0] != 'V':
            continue
        e = events[x[1] - 1]
        for clause in sorted(x[2]):
            pid = clause.split('_')[0]
            if pid != 'C17':
                continue
            key = ['C17', clause, e['op'], e['scn'], e['enc'], e['res']['ok'], e['res']['exc'],
                   'same' if e['after'] == e['before'] else 'changed']
            divs.append(dict(key=key, cls='%s:%s:%s' % (clause, e['op'], e['enc']),
                             what='%s %s under default encoding %s: ok=%s exc=%s file before=%s after=%s expected=%s effects=%s' % (
                                 clause, e['scn'], e['enc'], e['res']['ok'], e['res']['exc'], e['before'][:12], e['after'][:12],
                                 e['expect'][:12], e['effects']),
                             replay=dict(scn=e['scn'], enc=e['enc'], event=e)))
    cov = dict(states=sum(r_['distinct'] for r_ in mc.values()) + g['distinct'] + v['distinct'],
               transitions=sum(r_['generated'] for r_ in mc.values()) + g['generated'] + v['generated'],
               traces_validated_against_impl=len(events), evaluations=len(events),
               distinct_nontrivial=done[0][2].get('C17_aon', 0) + done[0][2].get('C17_declared', 0),
               rule='TLC (WriterGen) enumerates fault scenarios (failing node 0..10 or a serialisation fault x prior file state x intelligent_choice); each is executed '
                    'under 4 default text encodings; distinct_nontrivial = write() calls that exercised C17_aon (raised) or C17_declared (returned), counted by TLC',
               exercised_per_clause=done[0][2], scenarios=len(scen), encodings=ENCS, import_failed_under=import_failed,
               mc=dict(validate_first=dict(states=mc['validate-first']['distinct'], holds=True),
                       open_first=dict(states=mc['open-first']['distinct'], violated=mc['open-first']['violated'],
                                       note='negative control: the pre-repair ordering violates AllOrNothing in the model'),
                       check_open_serialise=dict(states=mc['check-open-serialise']['distinct'], violated=mc['check-open-serialise']['violated'],
                                                 note='negative control: validating first but producing the text after truncation also violates it')),
               model_drift=drift[:20], model_drift_count=len(drift),
               samples=[dict(scn=e['scn'], enc=e['enc'], ok=e['res']['ok'], exc=e['res']['exc'], effects=e['effects'],
                             before=e['before'][:12], after=e['after'][:12]) for e in events[3:60:19]])
    if not os.environ.get('VERIF_KEEP'):
        shutil.rmtree(wd, ignore_errors=True)
    return common.conclude('C17', tier, divs, cov, t0, assumptions=[
        'only the C and C.UTF-8 locales exist in the sandbox: ASCII and UTF-8 defaults are real (LC_ALL=C -X utf8=0 / C.UTF-8), '
        'Latin-1 and cp1252 are simulated by a builtins.open wrapper that supplies the encoding when the caller gives none',
        'open() failure is provoked with a destination that is a directory (the sandbox runs as root, so permissions cannot refuse)',
        'the expected bytes are sha-256(Utf8(declaration + to_string())) computed by the harness from an independent to_string() call',
        'effect-order conformance with Writer.tla is reported as model drift, not as a violation'])
