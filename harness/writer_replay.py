"""writer_replay.py -- executes the fault scenarios of write() (and import / parse / to_string) under ONE default text
encoding and records one event per call.  argv: scenarios.json out.ndjson encname workdir
encname: utf8 | ascii (real locales, set up by the caller through the environment) | latin1 | cp1252 (simulated:
builtins.open supplies the encoding when the caller gives none -- installed BEFORE the library is imported).
"""
import sys, os, io, json, hashlib, builtins, contextlib, traceback, shutil

scen_path, out_path, encname, workdir = sys.argv[1:5]
SIM = {'latin1': 'latin-1', 'cp1252': 'cp1252'}
_orig_open = builtins.open
effects = []
TARGET = [None]


class FileProxy:
    def __init__(self, f):
        self._f = f
        self._n = 0

    def write(self, s):
        self._n += 1
        effects.append('decl' if (self._n == 1 and s.startswith('<?xml')) else 'body')
        return self._f.write(s)

    def close(self):
        effects.append('close')
        return self._f.close()

    def __enter__(self):
        self._f.__enter__()
        return self

    def __exit__(self, *a):
        effects.append('close')
        return self._f.__exit__(*a)

    def __getattr__(self, k):
        return getattr(self._f, k)


def patched_open(file, mode='r', buffering=-1, encoding=None, errors=None, newline=None, closefd=True, opener=None):
    if encoding is None and 'b' not in mode and encname in SIM:
        encoding = SIM[encname]
    is_target = (TARGET[0] is not None and isinstance(file, (str, bytes, os.PathLike)) and os.fspath(file) == TARGET[0]
                 and ('w' in mode or 'a' in mode or '+' in mode))          # a file descriptor is passed through untouched
    try:
        f = _orig_open(file, mode, buffering, encoding, errors, newline, closefd, opener)
    except Exception:
        if is_target:
            effects.append('open-raise')
        raise
    if is_target:
        effects.append('open')
        return FileProxy(f)
    return f


builtins.open = patched_open
out = []
bo, be = io.StringIO(), io.StringIO()


def call(fn):
    o0, e0 = bo.tell(), be.tell()
    res = dict(ok=True, exc='', mro=[], nonemsg=False, where='')
    ret = None
    try:
        with contextlib.redirect_stdout(bo), contextlib.redirect_stderr(be):
            ret = fn()
    except Exception as ex:   # noqa
        res = dict(ok=False, exc=type(ex).__name__, mro=[c.__name__ for c in type(ex).__mro__], nonemsg='NoneType' in str(ex), where='')
    res['out'] = bo.tell() - o0
    res['err'] = be.tell() - e0
    return res, ret


def emit(**kw):
    kw['id'] = len(out) + 1
    kw['enc'] = encname
    for k, v in dict(fail=0, prior='', ic=False, before='', after='', expect='', effects=[], text='', twloc=0, scn='').items():
        kw.setdefault(k, v)
    out.append(kw)


def sha(b):
    return hashlib.sha256(b).hexdigest()


def state(path):
    if os.path.isdir(path):
        return 'dir'
    if not os.path.exists(path):
        return 'absent'
    with _orig_open(path, 'rb') as f:
        return sha(f.read())


# ---- import under this encoding
res, _ = call(lambda: __import__('musicxml.xmlelement.xmlelement'))
emit(op='import', res=res, scn='import')
if not res['ok']:
    with _orig_open(out_path, 'w', encoding='utf-8') as f:
        for r in out:
            f.write(json.dumps(r) + '\n')
    print(json.dumps(dict(events=len(out), import_failed=True)))
    sys.exit(0)
from musicxml.xmlelement.xmlelement import *      # noqa
from musicxml.parser.parser import parse_musicxml  # noqa

NONASCII = 'Pärt ♯ \U0001d11e'


class BadStr(str):
    """a str the library validates like any other, whose conversion to text fails: a fault at serialisation time"""
    def __str__(self):
        raise RuntimeError('serialisation fault injected by the harness')


def build(fail):
    """a small valid score with non-ASCII text; fail = k removes what node k needs (0: nothing)"""
    s = XMLScorePartwise(version='4.0')
    pl = XMLPartList()
    sp = XMLScorePart(id='P1') if fail != 3 else XMLScorePart()
    if fail != 4:
        sp.add_child(XMLPartName(BadStr(NONASCII) if fail == 11 else NONASCII))
    if fail != 2:
        pl.add_child(sp)
    if fail != 1:
        s.add_child(pl)
    p = XMLPart(id='P1') if fail != 5 else XMLPart()
    m = XMLMeasure(number='1') if fail != 7 else XMLMeasure()
    n = XMLNote()
    pi = XMLPitch()
    pi.add_child(XMLStep('C'))
    if fail != 10:
        pi.add_child(XMLOctave(4))
    if fail != 8:
        n.add_child(pi)          # a note needs pitch / unpitched / rest
    if fail != 9:
        n.add_child(XMLDuration(1))
    m.add_child(n)
    if fail != 6:
        p.add_child(m)
    s.add_child(p)
    return s


NFAULTS = 11     # 1..10: a node fails its final check; 11: every check passes but producing the text raises
DECL = '<?xml version="1.0" encoding="UTF-8" standalone="no"?>\n'
scen = json.load(_orig_open(scen_path))
os.makedirs(workdir, exist_ok=True)
for k, sc in enumerate(scen):
    path = os.path.join(workdir, 'out_%s_%d.xml' % (encname, k))
    if os.path.isdir(path):
        shutil.rmtree(path)
    elif os.path.exists(path):
        os.remove(path)
    if sc['prior'] == 'empty':
        _orig_open(path, 'wb').close()
    elif sc['prior'] == 'other':
        with _orig_open(path, 'wb') as f:
            f.write('<old>é</old>'.encode('utf-8'))
    elif sc['prior'] == 'longer':          # more bytes than any document written here
        with _orig_open(path, 'wb') as f:
            f.write(b'<old>' + b'x' * 60000 + b'</old>')
    elif sc['prior'] == 'isdir':
        os.makedirs(path)
    doc = build(sc['fail'])
    # expected bytes, computed independently of write(): declaration + to_string(), UTF-8
    r0, text = call(lambda: build(sc['fail']).to_string(intelligent_choice=sc['ic']))
    expect = sha((DECL + text).encode('utf-8')) if r0['ok'] else ''
    before = state(path)
    del effects[:]
    TARGET[0] = path
    depth = [0]

    # the final checks and the construction of the text are observed on the root element (outermost calls only)
    orig_fc = XMLScorePartwise._final_checks
    orig_cr = XMLScorePartwise._create_et_xml_element
    cr_done = [False]

    def traced_fc(self, *a, **kw):
        depth[0] += 1
        try:
            r = orig_fc(self, *a, **kw)
            if depth[0] == 1:
                effects.append('validate')
            return r
        except Exception:
            if depth[0] == 1:
                effects.append('validate-raise')
            raise
        finally:
            depth[0] -= 1

    def traced_cr(self, *a, **kw):
        try:
            r = orig_cr(self, *a, **kw)
            if not cr_done[0]:
                effects.append('serialise')
                cr_done[0] = True
            return r
        except Exception:
            if not cr_done[0]:
                effects.append('serialise-raise')
                cr_done[0] = True
            raise
    XMLScorePartwise._final_checks = traced_fc
    XMLScorePartwise._create_et_xml_element = traced_cr
    try:
        res, _ = call(lambda: doc.write(path, intelligent_choice=sc['ic']))
    finally:
        XMLScorePartwise._final_checks = orig_fc
        XMLScorePartwise._create_et_xml_element = orig_cr
        TARGET[0] = None
    after = state(path)
    # a FileProxy used as context manager reports close twice when close() is also called: keep one
    eff = []
    for x in effects:
        if x == 'close' and eff and eff[-1] == 'close':
            continue
        eff.append(x)
    emit(op='write', res=res, fail=sc['fail'], prior=sc['prior'], ic=sc['ic'], before=before, after=after, expect=expect,
         effects=eff, text=(sha(text.encode('utf-8')) if r0['ok'] else ''), scn='write/%d/%s/%s' % (sc['fail'], sc['prior'], sc['ic']))
    if os.path.isdir(path):
        shutil.rmtree(path)
    elif os.path.exists(path):
        os.remove(path)

# ---- parse a UTF-8 file with non-ASCII text, re-serialise
src = os.path.join(workdir, 'in_%s.xml' % encname)
good = build(0)
with _orig_open(src, 'wb') as f:
    f.write((DECL + good.to_string()).encode('utf-8'))
res, tree = call(lambda: parse_musicxml(src))
text = ''
if res['ok']:
    r2, t2 = call(lambda: tree.to_string())
    text = sha(t2.encode('utf-8')) if r2['ok'] else '!'
emit(op='parse', res=res, text=text, scn='parse')
res, t3 = call(lambda: good.to_string())
emit(op='tostring', res=res, text=sha(t3.encode('utf-8')) if res['ok'] else '', scn='tostring')
os.remove(src)
with _orig_open(out_path, 'w', encoding='utf-8') as f:
    for r in out:
        f.write(json.dumps(r) + '\n')
print(json.dumps(dict(events=len(out), import_failed=False)))
