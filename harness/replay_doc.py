"""replay_doc.py -- document-level executions on the real library, one event per scenario (judged by DocumentTrace.tla):

  trip      (C08)  build a tree through the API, to_string, write, parse_musicxml, to_string, parse, to_string
  parse     (C09)  a document generated from the schema tables only (harness/schemadoc.py) or a mutant of one:
                   parse_musicxml, to_string
  deepcopy  (C14)  copy.deepcopy of a tree whose attributes were set by keyword / dot / overwritten / removed
  mutate    (C14)  a mutation of the copy or of the original: the other one must not change

argv: job.json out.ndjson workdir
"""
import sys, os, io, json, copy, hashlib, contextlib, traceback
import xml.etree.ElementTree as ET

HERE = os.path.dirname(os.path.abspath(__file__))
sys.path.insert(0, HERE)
import mk as MK
import schemadoc as SD

DECL = '<?xml version="1.0" encoding="UTF-8" standalone="no"?>\n'
EMPTY = dict(n='', a=[], t=[], z=[], c=[])
bo, be = io.StringIO(), io.StringIO()


def sha(s):
    return hashlib.sha1(s.encode('utf-8')).hexdigest()[:12]


def call(fn):
    o0, e0 = bo.tell(), be.tell()
    res = dict(ok=True, exc='', mro=[], nonemsg=False, where='')
    ret = None
    try:
        with contextlib.redirect_stdout(bo), contextlib.redirect_stderr(be):
            ret = fn()
    except Exception as ex:  # noqa
        tb = traceback.extract_tb(ex.__traceback__)
        where = ''
        for fr in reversed(tb):
            if '/musicxml/' in fr.filename:
                where = fr.name
                break
        res = dict(ok=False, exc=type(ex).__name__, mro=[c.__name__ for c in type(ex).__mro__], nonemsg='NoneType' in str(ex), where=where)
    res['out'] = bo.tell() - o0
    res['err'] = be.tell() - e0
    return res, ret


def info(text):
    try:
        return SD.infoset(ET.fromstring(text))
    except Exception:  # noqa
        return dict(n='!unparsable', a=[], t=[], z=[], c=[])


OKRES = dict(ok=True, exc='', mro=[], nonemsg=False, where='', out=0, err=0)


class Doc:
    def __init__(self, F, B, workdir, out):
        self.F, self.B, self.wd, self.out = F, B, workdir, out
        from musicxml.parser.parser import parse_musicxml
        self.parse = parse_musicxml
        self.tmp = os.path.join(workdir, 'doc_%d.xml' % os.getpid())

    def emit(self, **kw):
        kw['id'] = len(self.out) + 1
        for k, v in dict(elem='', variant='', kind='', mut='', inp=EMPTY, outp=EMPTY, res=OKRES, res2=OKRES, res3=OKRES,
                         same23=True, t0='', t1='', t2='', chk0=True, chk1=True, a0=[], a1=[], target='', tw=0, inside=[], alone=[],
                         rootok=True, rooticok=True, ownok=True, addok=True, insw=[], outw=[]).items():
            kw.setdefault(k, v)
        self.out.append(kw)
        return kw['id']

    def write_text(self, text):
        with open(self.tmp, 'wb') as f:
            f.write((DECL + text).encode('utf-8'))

    # ---- C08 --------------------------------------------------------------------------
    def trip(self, elem, variant, build):
        r0, e = call(build)
        if not r0['ok']:
            return      # the variant cannot be built through the API: not a document the library can emit
        r1, text1 = call(lambda: e.to_string())
        if not r1['ok']:
            return      # not emitted: C08 quantifies over documents the library emits
        self.write_text(text1)
        r2, tree = call(lambda: self.parse(self.tmp))
        text2, r3, same = '', dict(OKRES), True
        if r2['ok']:
            r2b, text2 = call(lambda: tree.to_string())
            if not r2b['ok']:
                r2, text2 = r2b, ''
        if r2['ok']:
            self.write_text(text2)
            r3, tree3 = call(lambda: self.parse(self.tmp))
            if r3['ok']:
                r3b, text3 = call(lambda: tree3.to_string())
                same = r3b['ok'] and text3 == text2
                if not r3b['ok']:
                    r3 = r3b
        self.emit(op='trip', elem=elem, variant=variant, inp=info(text1), outp=info(text2) if text2 else EMPTY,
                  res=r1, res2=r2, res3=r3, same23=same)

    def trips_for(self, name):
        F, J = self.F, self.F.J
        t = J['elemtype'][name]
        cls, value, kwargs, kids = F.plan(name)
        self.trip(name, 'minimal', lambda: F.mk(name))
        if J['elemkind'][name] == 'complex':
            # every declared attribute set (those the library accepts), numbers offered as floats where the type is decimal
            def all_attrs(asfloat):
                def b():
                    e = F.mk(name)
                    for (an, at, rq) in J['attrs'][t]:
                        v = F.value(at)
                        if asfloat and isinstance(v, int) and not isinstance(v, bool):
                            v = float(v)
                        try:
                            setattr(e, an.split(':')[-1].replace('-', '_'), v)
                        except Exception:   # noqa
                            try:
                                setattr(e, an.split(':')[-1].replace('-', '_'), F.value(at))
                            except Exception:  # noqa
                                pass
                    return e
                return b
            if J['attrs'][t]:
                self.trip(name, 'all-attributes', all_attrs(False))
                self.trip(name, 'all-attributes-float', all_attrs(True))
                # every free-string attribute (no enumeration, no pattern) carrying markup, quotes, a non-BMP character:
                # what to_string escapes must come back through the library's own parser as the same string
                free = [an for (an, at, rq) in J['attrs'][t]
                        if J['st'][at]['prim'] == 'string' and not J['st'][at]['hasEnum'] and not J['st'][at]['pats']
                        and not J['st'][at]['union'] and ':' not in an]
                if free:
                    def markup():
                        e = F.mk(name)
                        for an in free:
                            try:
                                setattr(e, an.replace('-', '_'), '<&>"\' \u00e9\U0001d11e')
                            except Exception:   # noqa
                                pass            # a refusal is C04/C05's business; the trip judges what was accepted
                        return e
                    self.trip(name, 'attr-markup', markup)
            st = J['sbase'][t]
        else:
            st = t
        if st:
            v = F.value(st)
            if isinstance(v, int) and not isinstance(v, bool):
                self.trip(name, 'text-float', lambda: cls(float(v), **kwargs))
                self.trip(name, 'text-float-frac', lambda: cls(v + 0.5, **kwargs))
            if isinstance(v, str) and J['st'][st]['prim'] == 'string' and not J['st'][st]['hasEnum'] and not J['st'][st]['pats']:
                self.trip(name, 'text-exterior-blanks', lambda: cls('  a  b ', **kwargs))
                self.trip(name, 'text-inner-whitespace', lambda: cls('a\n b  c\td', **kwargs))
                self.trip(name, 'text-markup', lambda: cls('<&>"\' é\U0001d11e', **kwargs))
                # white space of Unicode that is not white space of XML, at the edges and inside: ordinary content
                self.trip(name, 'text-unicode-space', lambda: cls('\u00a0a\u2003b\u3000', **kwargs))
            # integer-valued types without an upper bound: a value no binary float holds exactly
            lv = self.leaves(st)
            ints = [l for l in lv if J['st'][l]['prim'] == 'decimal' and J['st'][l]['int']]
            if ints and not any(J['st'][l]['hasMax'] for l in ints):
                self.trip(name, 'text-bigint', lambda: cls(2 ** 53 + 1, **kwargs))
            # types that take a number as well as the empty string (unions with an empty literal): both, in this order,
            # in one process -- what the parser learnt from one document must not decide how it reads the next
            if ints and any(J['st'][l]['hasEnum'] and '' in J['st'][l]['enum'] for l in lv):
                n0 = next(J['st'][l]['minV'] if J['st'][l]['hasMin'] else 1 for l in ints)
                self.trip(name, 'text-number', lambda: cls(max(n0, 2), **kwargs))
                self.trip(name, 'text-empty-after-number', lambda: cls('', **kwargs))
            # the first document once more, after everything else this process has read for the class
            self.trip(name, 'minimal-again', lambda: F.mk(name))

    # ---- C09 --------------------------------------------------------------------------
    def parse_event(self, elem, kind, mut, node):
        text = ET.tostring(node, encoding='unicode')
        self.write_text(text)
        res, tree = call(lambda: self.parse(self.tmp))
        outp = EMPTY
        if res['ok']:
            r2, text2 = call(lambda: tree.to_string())
            if r2['ok']:
                outp = info(text2)
            else:
                res = r2
        self.emit(op='parse', elem=elem, kind=kind, mut=mut, inp=SD.infoset(node), outp=outp, res=res)

    def parses_for(self, name, words, wrap, nmut):
        B, J = self.B, self.F.J
        docs = []
        t = J['elemtype'][name]
        if J['elemkind'][name] == 'complex' and t in J['cm']:
            for w in words:
                docs.append(('word:' + ' '.join(w), B.build(name, word=w)))
        else:
            docs.append(('minimal', B.build(name)))
        if J['elemkind'][name] == 'complex' and J['attrs'][t]:
            docs.append(('all-attributes', B.build(name, attrs='all')))
        tt = J['sbase'][t] if J['elemkind'][name] == 'complex' else t
        if tt:
            # exterior blanks keep the document valid only where the type collapses white space (then they are
            # insignificant) or is a free xs:string (then they are content); on string-based enumerations they would not
            leaves = self.leaves(tt)
            collapsing = all(J['st'][l]['ws'] == 'collapse' for l in leaves)
            free = all(J['st'][l]['prim'] == 'string' and not J['st'][l]['hasEnum'] and not J['st'][l]['pats'] and J['st'][l]['minLen'] == 0 for l in leaves)
            if collapsing or free:
                d = B.build(name)
                d.text = '\n   ' + (d.text or '') + '  '
                docs.append(('text-exterior-blanks' + ('-collapsing' if collapsing else '-significant'), d))
            if free:
                d = B.build(name)
                d.text = 'a\n b  c\td'
                docs.append(('text-inner-whitespace', d))
            ints = [l for l in leaves if J['st'][l]['prim'] == 'decimal' and J['st'][l]['int']]
            if ints and not any(J['st'][l]['hasMax'] for l in ints):
                d = B.build(name)
                d.text = str(2 ** 53 + 1)           # valid: xs:integer is unbounded
                docs.append(('text-bigint', d))
        for k, (desc, d) in enumerate(docs):
            root = B.wrap(name, d) if wrap else d
            self.parse_event(name, 'valid', desc, root)
            if k < nmut:
                for md, m in SD.mutants(d):
                    self.parse_event(name, 'mutant', desc + '|' + md, B.wrap(name, m) if wrap else m)
        if tt and len(self.leaves(tt)) == 1 and J['st'][tt if not J['st'][tt]['union'] else self.leaves(tt)[0]]['prim'] == 'decimal' \
                and J['st'][self.leaves(tt)[0]]['int']:
            m = B.build(name)
            m.text = (m.text or '1').strip() + '.7'      # a fraction where the schema wants an integer: refuse, or keep it
            self.parse_event(name, 'mutant', 'text-fraction-in-integer', B.wrap(name, m) if wrap else m)

    def leaves(self, tn):
        d = self.F.J['st'][tn]
        if d['union']:
            out = []
            for m in d['union']:
                out += self.leaves(m)
            return out
        return [tn]

    # ---- C14 --------------------------------------------------------------------------
    def verdict(self, e):
        r, text = call(lambda: e.to_string())
        return sha(text) if r['ok'] else '!' + r['exc']

    def attrs(self, e):
        return sorted([[str(k), repr(v)] for k, v in e.attributes.items()])

    def copies_for(self, name):
        F, J = self.F, self.F.J
        t = J['elemtype'][name]
        if J['elemkind'][name] != 'complex':
            recipes = [('plain', lambda: F.mk(name))]
        else:
            opt = [(an, at) for (an, at, rq) in J['attrs'][t] if not rq and ':' not in an][:2]
            cls, value, kwargs, kids = F.plan(name)

            def with_kids(e):
                for k in kids:
                    e.add_child(F.mk(k))
                return e
            recipes = [('plain', lambda: F.mk(name))]
            for (an, at) in opt:
                py = an.replace('-', '_')
                v = F.value(at)

                def by_kw(py=py, v=v):
                    kw = dict(kwargs)
                    kw[py] = v
                    return with_kids(cls(value, **kw) if value != '' else cls(**kw))

                def by_dot(py=py, v=v):
                    e = F.mk(name)
                    setattr(e, py, v)
                    return e

                def kw_then_removed(py=py, v=v):
                    e = by_kw()
                    setattr(e, py, None)
                    return e

                def kw_then_overwritten(py=py, v=v, at=at):
                    e = by_kw()
                    d = J['st'][at]
                    v2 = d['enum'][-1] if d['hasEnum'] else (v + 1 if isinstance(v, int) and not d['hasMax'] else v)
                    setattr(e, py, v2)
                    return e
                recipes += [('kw:' + an, by_kw), ('dot:' + an, by_dot), ('kw-removed:' + an, kw_then_removed),
                            ('kw-overwritten:' + an, kw_then_overwritten)]
            # an element that WAS nested: built inside a parent, the parent serialised, then detached (remove /
            # replace_child / dot assignment of None) -- it is a root again and must copy like one
            def detached(how):
                p = F.mk(name)
                ks = p.get_children(ordered=False)
                c = next((k for k in ks if k.get_children(ordered=False)), ks[0])
                p.to_string()
                if how == 'remove':
                    p.remove(c)
                elif how == 'replace':
                    p.replace_child(c, F.mk(c.name))
                else:
                    setattr(p, 'xml_' + c.name.replace('-', '_'), None)
                return c
            if kids:
                recipes += [('detached-' + how, (lambda how=how: detached(how))) for how in ('remove', 'replace', 'dotnone')]

                # trees whose check setting changed while they were built (reachable through the API like any other)
                def unchecked_then_checked():
                    e = cls(value, xsd_check=False, **kwargs) if value != '' else cls(xsd_check=False, **kwargs)
                    for k in kids:
                        e.add_child(F.mk(k))
                    e.xsd_check = True
                    return e

                def check_off_for_one_child():
                    e = with_kids(cls(value, **kwargs) if value != '' else cls(**kwargs))
                    e.xsd_check = False
                    e.add_child(F.mk(kids[-1]))
                    e.xsd_check = True
                    return e
                recipes += [('toggled:unchecked-then-checked', unchecked_then_checked), ('toggled:check-off-for-one-child', check_off_for_one_child)]
        for chk in (True, False):
            for desc, build in recipes:
                def b():
                    e = build()
                    if not desc.startswith('toggled:'):
                        e.xsd_check = chk
                    return e
                if desc.startswith('toggled:') and not chk:
                    continue
                r0, e = call(b)
                if not r0['ok']:
                    continue
                t0, a0 = self.verdict(e), self.attrs(e)
                r, c = call(lambda: copy.deepcopy(e))
                t1 = self.verdict(e)
                a1 = self.attrs(e)
                tc = self.verdict(c) if r['ok'] else ''
                i1 = self.emit(op='deepcopy', elem=name, variant=desc, res=r, t0=t0, t1=t1, t2=tc, chk0=bool(e.xsd_check),
                               chk1=bool(c.xsd_check) if r['ok'] else False, a0=a0, a1=a1)
                if not r['ok']:
                    continue
                # every mutation gets a FRESH original / copy pair, so that an earlier mutation cannot mask a shared
                # structure (e.g. a set re-binding a dict that an unset would have edited in place)
                if desc.split(':')[0] not in ('plain', 'kw', 'dot'):
                    continue
                for target in ('copy', 'orig'):
                    for md in ('unset-present-attribute', 'overwrite-present-attribute', 'set-new-attribute', 'set-value',
                               'remove-child', 'add-child', 'child-set-attribute', 'child-set-value', 'grandchild-remove'):
                        rb, e2 = call(b)
                        if not rb['ok']:
                            continue
                        rc, c2 = call(lambda: copy.deepcopy(e2))
                        if not rc['ok']:
                            continue
                        x, other = (c2, e2) if target == 'copy' else (e2, c2)
                        fn = self.mutation(x, md)
                        if fn is None:
                            continue
                        tb = self.verdict(other)
                        rm, _ = call(fn)
                        ta = self.verdict(other)
                        self.emit(op='mutate', elem=name, variant=desc + '|' + md, target=target, res=rm, t0=tb, t1=ta, tw=i1)

    def mutation(self, x, md):
        """a thunk performing mutation md on tree x, or None when it does not apply"""
        F, J = self.F, self.F.J
        t = J['elemtype'].get(x.name)
        decl = J['attrs'].get(t, []) if J['elemkind'].get(x.name) == 'complex' else []
        plain = [(an, at) for (an, at, rq) in decl if ':' not in an and an != 'name']
        present = [(an, at) for (an, at) in plain if an in x.attributes]
        absent = [(an, at) for (an, at) in plain if an not in x.attributes]
        kids = x.get_children(ordered=False)

        def other_value(at, cur):
            d = J['st'][at]
            if d['hasEnum'] and len(d['enum']) > 1:
                return d['enum'][-1] if cur != d['enum'][-1] else d['enum'][0]
            v = F.value(at)
            if isinstance(v, int) and not isinstance(v, bool) and not d['hasMax']:
                return v + 1
            if isinstance(v, str) and not d['hasEnum'] and not d['pats'] and d['prim'] == 'string':
                return v + 'y'
            return v
        if md == 'unset-present-attribute' and present:
            return lambda: setattr(x, present[0][0].replace('-', '_'), None)
        if md == 'overwrite-present-attribute' and present:
            an, at = present[0]
            return lambda: setattr(x, an.replace('-', '_'), other_value(at, x.attributes[an]))
        if md == 'set-new-attribute' and absent:
            an, at = absent[0]
            return lambda: setattr(x, an.replace('-', '_'), F.value(at))
        if md == 'set-value':
            st = (J['sbase'].get(t) if J['elemkind'].get(x.name) == 'complex' else t)
            if st:
                return lambda: setattr(x, 'value_', other_value(st, x.value_))
        if md == 'remove-child' and kids:
            return lambda: x.remove(kids[0])
        if md == 'add-child' and kids:
            return lambda: x.add_child(F.mk(kids[-1].name))
        if md in ('child-set-attribute', 'child-set-value', 'grandchild-remove'):
            for k in kids:
                sub = self.mutation(k, {'child-set-attribute': 'set-new-attribute', 'child-set-value': 'set-value',
                                        'grandchild-remove': 'remove-child'}[md])
                if sub is not None:
                    return sub
        return None

    # ---- C18: mixtures of checked and unchecked nodes in one tree ------------------------------------------------
    def mixed_for(self, name):
        """name: an element with element content and at least one required child (so that it can be incomplete)"""
        F, B, J = self.F, self.B, self.F.J
        t = J['elemtype'][name]
        if t not in J['cm'] or not F.shortest_word(t):
            return
        par = B.parents().get(name)
        if not par:
            return
        pt = J['elemtype'][par]
        alien = next((x for x in ('words', 'pitch', 'duration', 'staff') if x not in J['alphabet'][t] and x not in J['alphabet'].get(pt, [])), None)
        if alien is None:
            return

        def out_names(text):
            return [c.tag for c in ET.fromstring(text)]
        # (a) unchecked root, checked incomplete child + a child the schema does not allow
        def a():
            P = F.mk(par, xsd_check=False, bare=True, lenient=True)
            C = F.mk(name, bare=True)          # checked, required children missing
            P.add_child(C)
            P.add_child(F.mk(alien))
            return P, C
        r0, pc = call(a)
        if r0['ok']:
            P, C = pc
            rr, text = call(lambda: P.to_string())
            ri, _ = call(lambda: P.to_string(intelligent_choice=True))
            ro, _ = call(lambda: C.to_string())
            ra, _ = call(lambda: C.add_child(F.mk(alien)))
            self.emit(op='mixed', elem=name, variant='unchecked-root', target=par, res=rr, rootok=rr['ok'], rooticok=ri['ok'], ownok=ro['ok'], addok=ra['ok'],
                      insw=[c.name for c in P.get_children(ordered=False)], outw=out_names(text) if rr['ok'] else [])
        # (b) checked complete root holding an unchecked child that carries arbitrary children
        def b():
            w = F.word_through(pt, name)
            P = F.mk(par, bare=True)
            U = None
            for k in w:
                if k == name and U is None:
                    U = F.mk(name, xsd_check=False, bare=True)
                    P.add_child(U)
                else:
                    P.add_child(F.mk(k))
            return P, U
        r0, pu = call(b)
        if r0['ok'] and pu[1] is not None:
            P, U = pu
            ra, _ = call(lambda: (U.add_child(F.mk(alien)), U.add_child(F.mk(alien))))
            rr, text = call(lambda: P.to_string())
            ri, _ = call(lambda: P.to_string(intelligent_choice=True))
            inner = []
            if rr['ok']:
                root = ET.fromstring(text)
                node = next((c for c in root if c.tag == name), None)
                inner = [c.tag for c in node] if node is not None else ['!missing']
            self.emit(op='mixed', elem=name, variant='unchecked-inner', target=par, res=rr, rootok=rr['ok'], rooticok=ri['ok'], ownok=True, addok=ra['ok'],
                      insw=[c.name for c in U.get_children(ordered=False)], outw=inner)

        # (c) as (b), but the unchecked child lacks its required attributes: whatever it serialises alone, the checked tree
        #     around it serialises too (the exemption is the element's, not its position's)
        req = [an for (an, at, rq) in J['attrs'].get(t, []) if rq and ':' not in an]
        if req:
            def c():
                w = F.word_through(pt, name)
                P = F.mk(par, bare=True)
                U = None
                for k in w:
                    if k == name and U is None:
                        cls, value, kwargs, kids = F.plan(name)
                        U = cls(value, xsd_check=False) if value != '' else cls(xsd_check=False)
                        P.add_child(U)
                    else:
                        P.add_child(F.mk(k))
                return P, U
            r0, pu = call(c)
            if r0['ok'] and pu[1] is not None:
                P, U = pu
                ro, _ = call(lambda: U.to_string())
                rr, text = call(lambda: P.to_string())
                ri, _ = call(lambda: P.to_string(intelligent_choice=True))
                self.emit(op='mixed', elem=name, variant='unchecked-inner-noattr', target=par, res=rr, rootok=rr['ok'], rooticok=ri['ok'],
                          ownok=ro['ok'], addok=True, insw=[], outw=[])

    # ---- C16: a subtree serialises to the same content alone as inside its parent, before and after it is mutated -------
    def nested_for(self, name):
        F, B, J = self.F, self.B, self.F.J
        par = B.parents().get(name)
        if not par:
            return
        pt = J['elemtype'][par]
        w = F.word_through(pt, name)
        if not w:
            return

        def build():
            P = F.mk(par, bare=True)
            E = None
            for k in w:
                c = F.mk(k)
                P.add_child(c)
                if k == name and E is None:
                    E = c
            return P, E

        def snapshot(P, variant, step):
            r, text = call(lambda: P.to_string())
            inside, alone = [], []
            if r['ok']:
                inside = [SD.infoset(c) for c in ET.fromstring(text)]
                for c in P.get_children():
                    rc, tc = call(lambda c=c: c.to_string())
                    alone.append(SD.infoset(ET.fromstring(tc)) if rc['ok'] else dict(EMPTY))
            self.emit(op='nested', elem=name, variant=variant + '|' + step, target=par, res=r, inside=inside, alone=alone)
        for md in ('set-new-attribute', 'unset-present-attribute', 'overwrite-present-attribute', 'set-value', 'add-child', 'remove-child'):
            for mid in ('', 'child-to_string'):
                rb, pe = call(build)
                if not rb['ok'] or pe[1] is None:
                    return
                P, E = pe
                fn = self.mutation(E, md)
                if fn is None:
                    break
                variant = md + ('+' + mid if mid else '')
                snapshot(P, variant, 'before')
                rm, _ = call(fn)
                if mid:
                    call(lambda: E.to_string())
                snapshot(P, variant, 'after')


def main():
    job = json.load(open(sys.argv[1]))
    workdir = sys.argv[3]
    os.makedirs(workdir, exist_ok=True)
    F = MK.Factory()
    B = SD.Builder(F.J)
    out = []
    D = Doc(F, B, workdir, out)
    skipped = []
    for name in job['elems']:
        try:
            F.mk(name)
            buildable = True
        except MK.Unconstructible as ex:
            skipped.append([name, str(ex)])
            buildable = False
        if buildable and 'trip' in job['ops']:
            D.trips_for(name)
        if buildable and 'copy' in job['ops']:
            D.copies_for(name)
        if buildable and 'nested' in job['ops']:
            D.nested_for(name)
            D.mixed_for(name)
        if 'parse' in job['ops']:
            t = F.J['elemtype'][name]
            words = job['cover'].get(t, [[]])[:job['maxwords']]
            D.parses_for(name, words, job['wrap'], job['nmut'])
    for path in job.get('files', []):
        # the library's own output / real exports: parse + re-serialise twice (C08 stability, C09 acceptance)
        path, _, keep = path.partition('#')
        root = ET.parse(path).getroot()
        if keep:      # only the first measures of every part (a driver-side reduction of the input)
            for part in root.findall('part'):
                for m in part.findall('measure')[int(keep):]:
                    part.remove(m)
        D.parse_event(os.path.basename(path) + ('#' + keep if keep else ''), 'valid', 'file', root)
    if os.path.exists(D.tmp):
        os.remove(D.tmp)
    with open(sys.argv[2], 'w') as f:
        for rec in out:
            f.write(json.dumps(rec, separators=(',', ':')) + '\n')
    print(json.dumps(dict(events=len(out), skipped=skipped)))


if __name__ == '__main__':
    main()
