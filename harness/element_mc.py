"""element_mc.py -- runs ElementMC (the clause set of Element.tla as a state machine over the real automata) for all
element-content types: consistency of the clauses, completability as an invariant, existence of a completion."""
import os, json, hashlib, fcntl
from . import common, tlc, schema, campaign

CFG = """SPECIFICATION Spec
CONSTANT Types <- EMTypes
CONSTANT SigmaOf <- EMSigma
CONSTANT MaxChildren = %d
CONSTANT MaxKids = %d
INVARIANT Inv_WellFormed
INVARIANT Inv_Ext
INVARIANT Inv_SubOrd
INVARIANT AddDecidable
INVARIANT RemoveDecidable
INVARIANT ReplaceDecidable
INVARIANT ToStringDecidable
INVARIANT SuccessAllowed
INVARIANT Inv_Complete
CHECK_DEADLOCK FALSE
"""


def run(tier):
    J = schema.ensure()
    key = hashlib.sha256(('emc|%s|%s' % (campaign.spec_digest(), tier)).encode()).hexdigest()[:20]
    cdir = os.path.join(common.CACHE, 'emc')
    os.makedirs(cdir, exist_ok=True)
    path = os.path.join(cdir, key + '.json')
    lock = open(os.path.join(cdir, 'lock'), 'w')
    fcntl.flock(lock, fcntl.LOCK_EX)
    try:
        if os.path.exists(path) and not os.environ.get('VERIF_NOCACHE'):
            return json.load(open(path))
        P = dict(campaign.TIERS['quick'])
        P['RM'] = 4
        plans = {t: campaign.type_plan(J, t, P, {}) for t in sorted(J['cm'])}
        wd = tlc.workdir('emc')
        # quick: the types with at most 6 child names (the clause set is the same for all; small alphabets keep the run
        # short); thorough: all 94
        types = sorted(t for t in plans if tier != 'quick' or len(J['alphabet'][t]) <= 6)
        with open(os.path.join(wd, 'EM.tla'), 'w') as f:
            f.write('---- MODULE EM ----\nEXTENDS ElementMC\nEMTypes == %s\nEMSigma == %s\n====\n' % (
                campaign.tset(types), campaign.fun([(t, plans[t]['rem']) for t in types], campaign.tset)))
        mc, mk = (3, 4)        # the thorough tier covers all 94 types with the same bounds (4 children make the run hours long)
        open(os.path.join(wd, 'EM.cfg'), 'w').write(CFG % (mc, mk))
        r = tlc.run(os.path.join(wd, 'EM.tla'), os.path.join(wd, 'EM.cfg'), workers=common.NCPU, timeout=3600, heap='8g')
        if not r['complete']:
            raise tlc.TLCError('ElementMC: the clause set is inconsistent or an invariant fails:\n' + r['out'][-3000:])
        out = dict(states=r['distinct'], transitions=r['generated'], types=len(types), max_children=mc, wall=round(r['wall'], 1))
        json.dump(out, open(path, 'w'))
        return out
    finally:
        fcntl.flock(lock, fcntl.LOCK_UN)
        lock.close()


if __name__ == '__main__':
    import sys
    print(run(sys.argv[1] if len(sys.argv) > 1 else 'quick'))
