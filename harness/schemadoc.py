"""schemadoc.py -- builds schema-valid MusicXML fragments from the schema tables ONLY (spec/schema.json).
Never imports the library: these are the "documents generated from the schema grammar independently of the
library" of C09.  Also the mutation operators for the no-silent-loss half, and the infoset projection.
"""
import copy
import xml.etree.ElementTree as ET
from mk import SchemaTables

XML_NS = 'http://www.w3.org/XML/1998/namespace'
XLINK_NS = 'http://www.w3.org/1999/xlink'
ET.register_namespace('xlink', XLINK_NS)
NS = {XML_NS: 'xml', XLINK_NS: 'xlink'}


def cps(s):
    return [ord(c) for c in s]


def attr_key(name):
    if name.startswith('xml:'):
        return '{%s}%s' % (XML_NS, name[4:])
    if name.startswith('xlink:'):
        return '{%s}%s' % (XLINK_NS, name[6:])
    return name


def infoset(node):
    """nested infoset of an ET element (tails kept: character data between children is content)"""
    attrs = []
    for k, v in node.attrib.items():
        if k.startswith('{'):
            ns, local = k[1:].split('}')
            k = NS.get(ns, ns) + ':' + local
        attrs.append([k, cps(v)])
    return dict(n=node.tag, a=sorted(attrs), t=cps(node.text or ''), z=cps(node.tail or ''), c=[infoset(c) for c in node])


class Builder(SchemaTables):
    def text_of(self, st):
        v = self.value(st)
        return str(v)

    def build(self, name, word=None, attrs='required', depth=0):
        J = self.J
        t = J['elemtype'][name]
        e = ET.Element(name)
        if J['elemkind'][name] == 'simple':
            e.text = self.text_of(t)
            return e
        for (an, at, rq) in J['attrs'][t]:
            if rq or attrs == 'all':
                e.set(attr_key(an), self.text_of(at))
        if J['sbase'][t]:
            e.text = self.text_of(J['sbase'][t])
        if t in J['cm']:
            w = word if word is not None else self.shortest_word(t)
            for k in w:
                e.append(self.build(k, depth=depth + 1))
        return e

    def parents(self):
        """child name -> (parent element name) along a shortest chain from score-partwise"""
        if hasattr(self, '_par'):
            return self._par
        from collections import deque
        J = self.J
        par = {'score-partwise': None}
        dq = deque(['score-partwise'])
        while dq:
            n = dq.popleft()
            t = J['elemtype'][n]
            if t in J['alphabet']:
                for c in J['alphabet'][t]:
                    if c not in par and c in J['elemtype']:
                        par[c] = n
                        dq.append(c)
        self._par = par
        return par

    def wrap(self, name, node):
        """embed node (an element named name) into a minimal score-partwise document"""
        par = self.parents()
        cur_name, cur = name, node
        while par.get(cur_name):
            p = par[cur_name]
            w = self.word_through(self.J['elemtype'][p], cur_name)
            pe = self.build(p, word=[])
            placed = False
            for k in w:
                if k == cur_name and not placed:
                    pe.append(cur)
                    placed = True
                else:
                    pe.append(self.build(k))
            cur_name, cur = p, pe
        return cur


def mutants(doc):
    """(description, mutated copy) -- single edits that make the document invalid or unusual"""
    out = []
    target = doc
    # the deepest first element that has children
    for n in doc.iter():
        if len(n) >= 1:
            target = n
    path = []

    def clone():
        d = copy.deepcopy(doc)
        # locate the clone of target by position in iteration order
        idx = list(doc.iter()).index(target)
        return d, list(d.iter())[idx]
    if len(target) >= 1:
        d, t = clone()
        t.remove(t[0])
        out.append(('delete-first-child', d))
        d, t = clone()
        t.insert(0, copy.deepcopy(t[0]))
        out.append(('duplicate-first-child', d))
        d, t = clone()
        t[0].tail = 'stray text'
        out.append(('text-between-children', d))
        d, t = clone()
        t[-1].tail = 'stray text'
        out.append(('text-after-last-child', d))
        d, t = clone()
        t.append(ET.Element('no-such-element'))
        out.append(('unknown-element', d))
    if len(target) >= 2:
        d, t = clone()
        a, b = t[0], t[-1]
        t.remove(b)
        t.insert(0, b)
        out.append(('last-child-first', d))
    d, t = clone()
    t.set('no-such-attribute', 'x')
    out.append(('unknown-attribute', d))
    return out
