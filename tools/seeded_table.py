#!/usr/bin/env python3
"""Regenerates the table of seeded changes in DESIGN.md section 0.7 from seeded/*/meta.json."""
import os, json, glob, re
V = os.path.dirname(os.path.dirname(os.path.abspath(__file__)))
rows = ['| id | property | what it needs to manifest | caught by (quick tier) | notes |', '|---|---|---|---|---|']
for p in sorted(glob.glob(os.path.join(V, 'seeded', '*', 'meta.json'))):
    m = json.load(open(p))
    rows.append('| %s | %s | %s | %s | %s |' % (m['id'], m['property'], m['needs'].replace('|', '/'), m['caught_by'].replace('|', '/'), m.get('notes', '').replace('|', '/')))
table = '\n'.join(rows)
d = os.path.join(V, 'DESIGN.md')
s = open(d).read()
if 'SEEDED_TABLE' in s:
    s = s.replace('SEEDED_TABLE', '<!-- seeded-table-begin -->\n' + table + '\n<!-- seeded-table-end -->')
else:
    s = re.sub(r'<!-- seeded-table-begin -->.*?<!-- seeded-table-end -->', lambda m_: '<!-- seeded-table-begin -->\n' + table + '\n<!-- seeded-table-end -->', s, flags=re.S)
open(d, 'w').write(s)
print(table)
