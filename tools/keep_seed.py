#!/usr/bin/env python3
"""tools/keep_seed.py <src-dir> <id> <property> "<needs>" "<caught_by>" "<ran>" ["<notes>"]
Stores a confirmed seeded change under /verif/seeded/<id>/ (patch.diff, demo.py, notes.txt, meta.json)."""
import sys, os, json, shutil
V = os.path.dirname(os.path.dirname(os.path.abspath(__file__)))
src, sid, prop, needs, caught, ran = sys.argv[1:7]
notes = sys.argv[7] if len(sys.argv) > 7 else ''
d = os.path.join(V, 'seeded', sid)
os.makedirs(d, exist_ok=True)
for f in ('patch.diff', 'demo.py', 'notes.txt'):
    if os.path.exists(os.path.join(src, f)):
        shutil.copy(os.path.join(src, f), os.path.join(d, f))
json.dump(dict(id=sid, property=prop, needs=needs, caught_by=caught, ran=ran, notes=notes,
               origin='written by an independent sub-agent that saw only the property text and a scratch worktree of /repo'),
          open(os.path.join(d, 'meta.json'), 'w'), indent=1)
print('kept', d)
