#!/usr/bin/env python3
"""tools/accept_by_class.py <PID> <tier> -- hand-run: appends the unlisted divergences of the last <tier> run whose finding
class is ALREADY recorded in known_findings/<PID>.jsonl as further witnesses of that finding (same description).
Divergences of classes not yet recorded are listed, not accepted.  Run only on the unchanged tree, after review."""
import sys, os, json, collections
V = os.path.dirname(os.path.dirname(os.path.abspath(__file__)))
sys.path.insert(0, V)
from harness import common
pid, tier = sys.argv[1], sys.argv[2]
known = common.load_findings(pid)
what = {}
for d in known.values():
    what.setdefault(d['class'], d.get('what', ''))
new = collections.Counter()
acc = 0
with open(os.path.join(common.KF_DIR, pid + '.jsonl'), 'a') as f:
    for l in open(os.path.join(common.CACHE, 'last', '%s.%s.jsonl' % (pid, tier))):
        d = json.loads(l)
        ks = common.keystr(d['key'])
        if d['known'] or ks in known:
            continue
        if d['cls'] in what:
            known[ks] = 1
            f.write(json.dumps(dict(**{'class': d['cls']}, key=d['key'], what=what[d['cls']]), sort_keys=True) + '\n')
            acc += 1
        else:
            new[d['cls']] += 1
print(pid, tier, 'accepted', acc, 'as further witnesses; classes not yet recorded:', dict(new))
