#!/usr/bin/env python3
import sys, json, glob, collections
tier = sys.argv[1]; clause = sys.argv[2]; n = int(sys.argv[3]) if len(sys.argv) > 3 else 10
for p in glob.glob('/verif/.cache/campaign_values/*.json'):
    r = json.load(open(p))
    if r['tier'] != tier: continue
    ds = [d for d in r['divergences'] if d['clause'] == clause]
    c = collections.Counter((d['key'][3], d['key'][4], d['key'][5] if clause!='C19_class' else '', d['key'][6][:40] if len(ds)<400 else d['key'][6].split(':')[0], d['key'][7], d['key'][8]) for d in ds)
    for k, v in c.most_common(n): print(v, k)
    print(len(set(d['key'][2] for d in ds)),'elements')
    for d in ds[:3]: print('   ', d['what'][:300])
