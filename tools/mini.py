#!/usr/bin/env python3
"""tools/mini.py <tier> <families,comma> <type> [<type> ...] -- development aid: GEN -> replay -> TV for a few types and
families only (VERIF_REPO selects the checkout); prints the divergences by clause and the event count."""
import sys, os, json, collections
sys.path.insert(0, os.path.join(os.path.dirname(os.path.abspath(__file__)), '..'))
from harness import campaign, schema, tlc, common

tier, fams, types = sys.argv[1], sys.argv[2].split(','), sys.argv[3:]
J = schema.ensure()
P = campaign.TIERS[tier]
wd = tlc.workdir('mini')
unc = campaign.unconstructible_names(wd)
plans = {t: campaign.type_plan(J, t, P, unc) for t in types}
W = None
if os.environ.get('WALKS'):
    n, d = os.environ['WALKS'].split(',')
    W = dict(num=int(n), depth=int(d), seed=20260927)
    plans = {t: dict(p, depth=int(d)) for t, p in plans.items()}
    P = dict(P, maxrare=3, maxpersym=3)
os.environ['VERIF_KEEP'] = '1'
r = campaign.shard_pipeline(wd, 0, types, plans, P, fams, None, W)
print('events', r['events'], 'behaviours', r['behaviours'], 'times', {k: v for k, v in r['times'].items() if k in ('gen', 'replay', 'tv')})
c = collections.Counter((d['clause'], d['type']) for d in r['divergences'])
for k, v in sorted(c.items()):
    print(v, k)
for d in r['divergences'][:int(os.environ.get('SHOW', '5'))]:
    print(json.dumps(d)[:600])
