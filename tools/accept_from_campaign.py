#!/usr/bin/env python3
"""tools/accept_from_campaign.py <values|doc> <tier> -- hand-run, unchanged tree only, after review: like accept_by_class.py, but
reads the cached result of one campaign (all properties it judges at once) instead of the last run of one check.  Only
divergences whose finding class is ALREADY recorded for that property are appended as further witnesses; others are listed."""
import sys, os, json, glob, collections
V = os.path.dirname(os.path.dirname(os.path.abspath(__file__)))
sys.path.insert(0, V)
from harness import common
camp, tier = sys.argv[1], sys.argv[2]
res = None
for p in glob.glob(os.path.join(common.CACHE, 'campaign_' + camp, '*.json')):
    r = json.load(open(p))
    if r.get('tier') == tier:
        res = r
assert res is not None, 'no cached result'
by = collections.defaultdict(list)
for d in res['divergences']:
    by[d['pid']].append(d)
for pid, ds in sorted(by.items()):
    known = common.load_findings(pid)
    what = {}
    for d in known.values():
        what.setdefault(d['class'], d.get('what', ''))
    acc, new = 0, collections.Counter()
    with open(os.path.join(common.KF_DIR, pid + '.jsonl'), 'a') as f:
        for d in ds:
            ks = common.keystr(d['key'])
            if ks in known:
                continue
            if d['cls'] in what:
                known[ks] = 1
                f.write(json.dumps(dict(**{'class': d['cls']}, key=d['key'], what=what[d['cls']]), sort_keys=True) + '\n')
                acc += 1
            else:
                new[d['cls']] += 1
    print(pid, tier, 'accepted', acc, 'not recorded classes:', dict(new))
