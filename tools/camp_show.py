#!/usr/bin/env python3
import sys, json, glob, collections
tier = sys.argv[1]; clause = sys.argv[2]; n = int(sys.argv[3]) if len(sys.argv) > 3 else 10
for p in glob.glob('/verif/.cache/campaign/*.json'):
    r = json.load(open(p))
    if r['tier'] != tier: continue
    ds = [d for d in r['divergences'] if d['clause'] == clause]
    c = collections.Counter((d['type'], d['op'], d['exc'], d['where']) for d in ds)
    for k, v in c.most_common(25): print(v, k)
    seen = set()
    for d in ds:
        k = (d['type'], d['op'], d['exc'])
        if k in seen: continue
        seen.add(k)
        print(json.dumps(d['replay'])[:600])
        if len(seen) >= n: break
