#!/bin/bash
# tools/validate_seed.sh <seed-dir-with-patch.diff-and-demo.py> <PID> [more PIDs to run]
# Confirms a seeded change in a scratch worktree (outside /repo and /verif): applies cleanly, suite passes, demo fails
# with it and passes without it; then runs the named checks against the worktree.  Removes the worktree afterwards.
set -u
D=$(realpath "$1"); shift
WT=$(mktemp -d /tmp/valseed.XXXXXX); rmdir "$WT"
git -C /repo worktree add -q "$WT" HEAD || exit 2
trap 'git -C /repo worktree remove --force "$WT" >/dev/null 2>&1' EXIT
cp "$D/demo.py" "$WT/demo_seed.py"
( cd "$WT" && PYTHONPATH="$WT" /venv/bin/python -W ignore demo_seed.py >/dev/null 2>&1 ); echo "demo on clean tree: exit $?"
git -C "$WT" apply "$D/patch.diff" || { echo "patch does not apply"; exit 2; }
( cd "$WT" && PYTHONPATH="$WT" /venv/bin/python -W ignore demo_seed.py >/dev/null 2>&1 ); echo "demo with change:   exit $?"
( cd "$WT" && /venv/bin/python -m pytest -q -p no:cacheprovider --timeout=900 2>&1 | tail -1 )
for P in "$@"; do
  OUT=$(cd /verif && VERIF_REPO="$WT" ./check "$P" 2>&1)
  echo "check $P: $(echo "$OUT" | grep -c '^VIOLATION') VIOLATION lines; $(echo "$OUT" | tail -1)"
  echo "$OUT" | grep -A1 '^VIOLATION' | head -4 | cut -c1-300
done
