#!/usr/bin/env python3
"""Maintenance tool, run BY HAND after triage -- never by a check.

  tools/triage.py list C03 [tier]              show unlisted divergences of the last run, grouped by class
  tools/triage.py accept C03 <class> "<what>" [tier] [--match substr]
        append the unlisted divergences of class <class> (optionally only keys containing substr) to
        known_findings/C03.jsonl as witnesses of the finding <class>, described by <what>.

A divergence is only ever accepted here after it has been reproduced against the real code and
judged a genuine defect (see DESIGN.md section 5); false alarms are fixed in the machinery instead.
"""
import sys, os, json, collections
V = os.path.dirname(os.path.dirname(os.path.abspath(__file__)))
sys.path.insert(0, V)
from harness import common


def last(pid, tier):
    p = os.path.join(common.CACHE, 'last', '%s.%s.jsonl' % (pid, tier))
    return [json.loads(l) for l in open(p)]


def main():
    cmd, pid = sys.argv[1], sys.argv[2]
    args = [a for a in sys.argv[3:] if not a.startswith('--match')]
    match = None
    if '--match' in sys.argv:
        match = sys.argv[sys.argv.index('--match') + 1]
        args = [a for a in args if a != match]
    if cmd == 'list':
        tier = args[0] if args else 'quick'
        by = collections.defaultdict(list)
        for d in last(pid, tier):
            if not d['known']:
                by[d['cls']].append(d)
        for c, v in sorted(by.items()):
            print('%-50s %d' % (c, len(v)))
            for d in v[:3]:
                print('    ', json.dumps(d['key'])[:200])
    elif cmd == 'accept-all':
        # accept every unlisted divergence, one finding per class, described by a common text
        what = args[0]
        tier = args[1] if len(args) > 1 else 'quick'
        known = common.load_findings(pid)
        n = 0
        with open(os.path.join(common.KF_DIR, pid + '.jsonl'), 'a') as f:
            for d in last(pid, tier):
                ks = common.keystr(d['key'])
                if d['known'] or ks in known:
                    continue
                if match and match not in d['cls']:
                    continue
                known[ks] = 1
                f.write(json.dumps(dict(**{'class': d['cls']}, key=d['key'], what=what), sort_keys=True) + '\n')
                n += 1
        print('accepted', n)
    elif cmd == 'accept':
        cls, what = args[0], args[1]
        tier = args[2] if len(args) > 2 else 'quick'
        known = common.load_findings(pid)
        n = 0
        with open(os.path.join(common.KF_DIR, pid + '.jsonl'), 'a') as f:
            for d in last(pid, tier):
                ks = common.keystr(d['key'])
                if d['known'] or d['cls'] != cls or ks in known:
                    continue
                if match and match not in ks:
                    continue
                known[ks] = 1
                f.write(json.dumps(dict(**{'class': cls}, key=d['key'], what=what), sort_keys=True) + '\n')
                n += 1
        print('accepted', n)


if __name__ == '__main__':
    main()
