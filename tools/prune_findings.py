#!/usr/bin/env python3
"""tools/prune_findings.py <PID> ... -- hand-run maintenance: drops witnesses from known_findings/<PID>.jsonl that neither
the last quick nor the last thorough run reproduced (stale keys left behind when the exploration changed).  A pruned
key can only make a check stricter, never quieter."""
import sys, os, json
V = os.path.dirname(os.path.dirname(os.path.abspath(__file__)))
sys.path.insert(0, V)
from harness import common
for pid in sys.argv[1:]:
    seen = set()
    tiers = 0
    for tier in ('quick', 'thorough'):
        p = os.path.join(common.CACHE, 'last', '%s.%s.jsonl' % (pid, tier))
        if os.path.exists(p):
            tiers += 1
            for l in open(p):
                seen.add(common.keystr(json.loads(l)['key']))
    path = os.path.join(common.KF_DIR, pid + '.jsonl')
    if not os.path.exists(path) or not tiers:
        continue
    keep, drop = [], 0
    for l in open(path):
        if l.strip():
            if common.keystr(json.loads(l)['key']) in seen:
                keep.append(l)
            else:
                drop += 1
    open(path, 'w').writelines(keep)
    print(pid, 'kept', len(keep), 'dropped', drop, '(tiers seen: %d)' % tiers)
