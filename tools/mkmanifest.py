#!/usr/bin/env python3
"""Writes MANIFEST.json from the table below (one place to edit)."""
import json, os
V = os.path.dirname(os.path.dirname(os.path.abspath(__file__)))
ALL = ['C%02d' % i for i in range(1, 21)]
BASE = "cd /repo && /venv/bin/python -m pytest -ra -q -p no:cacheprovider --timeout=900 --continue-on-collection-errors"

CHECKS = {
 'C03': dict(
   technique='TLA+ spec (Translation.tla) model-checked by TLC: exhaustive product-automaton language equivalence + table equalities, library side projected from the imported working tree',
   level=('model_checking', 'TLC exhausts the reachable determinised product of the schema automaton and the automaton compiled from the library\'s own template for all 94 element-content types (a complete decision of language equivalence, no bound), and evaluates the finite table equalities (441 classes, 228 attribute tables, simple-content bases, 151 simple-type declarations, schema file hash). The space is finite and exhausted, so quick = thorough.', 'DESIGN.md 3.8, 6 C03'),
   note='trusted: gen/xsd2tla.py reading of the pinned XSD (guarded by SchemaSelfCheck: two semantics), hand-written xlink attribute types, the projection harness/project_impl.py, TLC',
   thorough=True),
}
ELEM_NOTE = ('trusted: content-model automata generated from the pinned XSD (SchemaSelfCheck + C03), minimal valid child instances (harness/mk.py), the public-API projection (harness/replay.py), TLC. '
             'Bounded: histories up to the tier depth over reduced alphabets; beyond the bound nothing is claimed.')


def elem(pid, what, sec):
    return dict(
        technique='TLA+ spec (Element.tla clauses) + TLC three ways: ElementGen enumerates operation histories (families uniform / words / perms / removal / afterfail / cover+pump / wordrem), the harness replays them on the real library, ElementTrace judges every recorded step incl. twin steps (trace validation); the repository\'s own 192 tests run under a recorder and are judged the same way; ' + what,
        level=('model_checking', 'Every operation history TLC enumerates within the tier bounds (all 94 element-content types; add / forward add / remove / replace / xml_x dot set+unset / to_string with and without intelligent choice; '
               'valid words, permutations of uniquely arrangeable bags, removal probes; both xsd_check values) is executed on the working tree and each recorded step is validated by TLC against the clauses of Element.tla; '
               'the verdict for this property is the set of failing ' + pid + ' clauses. Element classes without element content are driven too (a checked one must refuse every child, an unchecked one accepts any). Exhaustive within the bounds, nothing beyond them.', sec),
        note=ELEM_NOTE, thorough=True)


CHECKS.update({
 'C01': elem('C01', 'clause C01_word: Accepts(CM[type], children in schema order) at every successful to_string; C01_text ties the projection to the emitted text', 'DESIGN.md 3.3, 6 C01'),
 'C02': elem('C02', 'clauses C02_accept (viable prefix of a valid word is accepted) and C02_final (valid word passes the final check and keeps its order)', 'DESIGN.md 3.3, 6 C02'),
 'C06': elem('C06', 'clauses C06_add/remove/replace/out: both views are permutations of each other and equal the operated children; parent links', 'DESIGN.md 3.3, 6 C06'),
 'C07': elem('C07', 'clause C07_ext: after every accepted add/replace the bag of children is completable (Ext on the automaton); plus ElementMC.tla model-checked by TLC: the clause set as a state machine over the real automata (Inv_Ext invariant and closed under remove/replace, Inv_Complete, every call always has an outcome no clause forbids)', 'DESIGN.md 0.2, 3.3, 6 C07'),
 'C10': elem('C10', 'clauses C10_frame (projection unchanged by a raising call) and C10_future (every continuation behaves as in the twin history without the failed call)', 'DESIGN.md 3.3, 4.4, 6 C10'),
 'C11': elem('C11', 'clauses C11_obs / C11_state: every continuation after a removal behaves as on the twin built from the remaining children', 'DESIGN.md 3.3, 4.4, 6 C11'),
 'C12': elem('C12', 'clauses C12_reject (a rejected child was not completable) and C12_unique (uniquely arrangeable bags serialise in that arrangement, same names in insertion order)', 'DESIGN.md 3.3, 6 C12'),
 'C19': elem('C19', 'clauses C19_class (exception families, never internal errors) and C19_quiet (no stdout/stderr) at every recorded step', 'DESIGN.md 3.3, 6 C19'),
})
VAL_NOTE = ('trusted: simple-type tables / pattern automata generated from the pinned XSD, the lexical-space definitions of spec/Lexical.tla (LexicalTest examples), '
            'the public-API projection (harness/replay_values.py), xml.etree as the standard XML parser, TLC.')


def val(pid, what, sec, also_elem=False):
    return dict(
        technique='TLA+ spec (Values.tla over Lexical.tla / Schema tables) + TLC: ValuesGen derives the probing tokens of every simple type from its definition, the harness offers them at every attribute / text slot of every element class, ValuesTrace judges every recorded step (trace validation)' + ('; plus the Element campaign clauses of this property' if also_elem else '') + '; ' + what,
        level=('model_checking', 'For all 441 element classes, every declared attribute and the text slot are offered the tokens TLC derives from the slot\'s simple type (every enumeration literal, bounds +-1, one word through every edge of every pattern automaton and one-edit mutants, white-space variants, float magnitudes, bools, non-finite, None) through the constructor-keyword and the dot surface, then serialised and read back; undeclared names are offered too. '
               'Each recorded step is validated by TLC against Values.tla; membership in a lexical space is decided in TLA+ (InLex) on code points, never in Python. Exhaustive over (class, slot) pairs for the representative element of each type; token sets are finite samples of infinite lexical spaces.', sec),
        note=VAL_NOTE, thorough=True)


CHECKS.update({
 'C04': val('C04', 'clauses C04_decl / C04_value / C04_store / C04_unset / C04_required / C04_names', 'DESIGN.md 3.4, 6 C04'),
 'C05': val('C05', 'clauses C05_complete (valid normalised offers are accepted), C05_sound (emitted text is in the lexical space), C05_value, C05_notext', 'DESIGN.md 3.4, 6 C05'),
})
for _p, _w in (('C10', 'clauses C10_frame / C10_future (Element) and C10_frame (Values: a refused attribute / value assignment stores nothing)'),
               ('C15', 'clauses C15_same / C15_noop (xml_x dot assignment == explicit add/replace/remove) and C15_same / C15_read (keyword == dot attribute assignment; e.attr reads)'),
               ('C16', 'clauses C16_pure / C16_future: to_string leaves the projection and every later outcome unchanged'),
               ('C19', 'clauses C19_class / C19_quiet at every recorded step of both campaigns')):
    CHECKS[_p] = elem(_p, _w + '; also every step of the Values campaign', 'DESIGN.md 3.3, 3.4, 6 ' + _p)
CHECKS['C18'] = elem('C18', 'clauses C18_free (an unchecked element never raises for structural reasons and keeps insertion order) and C18_same (for valid in-order words the unchecked twin emits the same bytes as the checked one)', 'DESIGN.md 3.3, 6 C18')
CHECKS['C17'] = dict(
   technique='TLA+ spec Writer.tla model-checked by TLC (write() protocol over every failing node / prior file state / failing open; the pre-repair ordering is the negative control); WriterGen enumerates fault scenarios, the harness executes write()/import/parse under 4 default text encodings, WriterTrace validates every recorded call (bytes before/after, expected bytes, locale twins); effect order vs. the model reported as drift',
   level=('model_checking', 'Writer.tla: AllOrNothing and Declared hold in every state for the validate-first design (all failing nodes, prior states, failing open) and TLC produces the counterexample for the open-first design. On the code: all 11 x 4 x 2 fault scenarios TLC enumerates (each node of a 3-level score failing in turn by missing child or missing required attribute, destination absent / empty / other content / unopenable, intelligent_choice on/off) are executed under UTF-8, ASCII (real locales), Latin-1 and cp1252 (simulated) defaults and each recorded call is validated by TLC: a raising write leaves the bytes untouched, a returning one leaves exactly Utf8(declaration + to_string()), import / parse / to_string behave identically under every default encoding. Exhaustive over the enumerated scenarios.', 'DESIGN.md 3.6, 6 C17'),
   note='trusted: sha-256 of file bytes as projection, the builtins.open wrapper that simulates Latin-1 / cp1252 defaults (only C and C.UTF-8 locales exist), TLC; open() failure provoked by a directory at the destination', thorough=True)
CHECKS['C20'] = dict(
   technique='TLA+/PlusCal spec LazyInit.tla model-checked by TLC against AtomicCache (refinement, all interleavings; publish-then-fill is the negative control); schedules <<A, pre-emption line i, B>> executed on the real library in forked pristine processes (sys.settrace), LazyTrace validates every recorded schedule against the atomic cache (each thread == its solo run) and reports partial tables as model drift',
   level=('model_checking', 'LazyInit.tla (lazily filled class-level tables with nested group resolution, 2-3 threads, every interleaving): build-then-publish refines AtomicCache (every call returns the complete table, a published slot never changes); publish-then-fill is refuted by TLC. On the code: thread A is pre-empted once at an executed library line of its first use of its classes and thread B runs to completion in the gap; quick = every 2nd line inside lazily-initialising frames + every 40th other line of 5 workload pairs (about 9,000 schedules), thorough = every executed line of 10 pairs; TLC validates that both threads observe exactly what they observe alone.', 'DESIGN.md 3.7, 6 C20'),
   note='trusted: CPython GIL semantics, sys.settrace line events as pre-emption points, fork for pristine process state, TLC. One pre-emption and two threads on the code; all interleavings only on the model.', thorough=True)
DOC_NOTE = ('trusted: xml.etree as the standard XML parser, the schema-only document builder harness/schemadoc.py (valid values / words from spec/schema.json), '
            'the infoset relations of spec/Document.tla (Equiv, NoLoss, DecimalEq), TLC. Documents are finite samples: one word per automaton edge, all-attribute and white-space variants, single-edit mutants.')


def doc(pid, what, sec):
    return dict(
        technique='TLA+ spec (Document.tla infoset relations over Schema types) + TLC: DocumentGen supplies edge-covering child words, a schema-only builder makes documents, the harness round-trips / parses / deep-copies on the real library, DocumentTrace judges every recorded scenario (trace validation); ' + what,
        level=('model_checking', 'For all 441 element classes: API-built trees (minimal, all attributes as ints and as floats, float / fractional text, exterior blanks, markup characters) are serialised, written, parsed and re-serialised twice; schema-generated documents (one per follow edge of every content model, bare and wrapped into a score-partwise, all attributes in XML form, white-space variants) and their single-edit mutants plus the repository\'s MusicXML files are parsed and re-serialised; trees with attributes set by keyword / dot / overwritten / removed under both xsd_check values are deep-copied and then each tree is mutated. '
               'TLC validates each recorded scenario against the relations of Document.tla, decided on code points and schema types in TLA+.', sec),
        note=DOC_NOTE, thorough=True)


CHECKS['C08'] = doc('C08', 'clauses C08_reparse, C08_trip (Equiv with decimal re-spelling only at non-integer decimal positions), C08_stable (second trip byte-identical)', 'DESIGN.md 3.5, 6 C08')
CHECKS['C09'] = doc('C09', 'clauses C09_accept, C09_trip (valid input), C09_noloss (any input: raise or lose nothing)', 'DESIGN.md 3.5, 6 C09')
CHECKS['C14'] = doc('C14', 'clauses C14_copies, C14_faithful (same text, same xsd_check), C14_unchanged (original untouched), C14_frame (mutating one tree never changes the other)', 'DESIGN.md 3.5, 6 C14')
CHECKS['C13'] = dict(
   technique='TLA+ specs ElementGen (per-instance histories) and InterleaveGen (every interleaving) drive two live instances in one process; PairTrace validates every recorded step (acting instance == its solo run, other instance unchanged) and a probe battery against a pristine process (trace validation by TLC)',
   level=('model_checking', 'Every interleaving TLC enumerates (all 20 for histories 3+3) of every selected pair of histories (restructuring-prone histories of 10-16 types; all same-class pairs and neighbouring different-class pairs) is executed with both instances alive in one process; TLC validates for each step that the acting instance observes exactly what it observes alone and that the other instance\'s projection is unchanged, and that a fixed probe battery over all 94 element-content types gives the digest of a pristine process before and after. Exhaustive over interleavings within the bounds.', 'DESIGN.md 3.5, 6 C13'),
   note='trusted: the public projection, minimal child instances, TLC. Bounded to two instances and depth-3 histories; cross-process determinism is itself checked by the battery digests.', thorough=True)
NA_REASON = 'check not built yet (construction in progress; DESIGN.md section 7 gives the order)'


def main():
    m = dict(version=1,
             setup_cmd='python3 -B -m harness.setup',
             hooks=dict(guard='MUSICXML_VERIF', enable='checks set MUSICXML_VERIF=1 in the environment of every process that imports the library; no source hook exists so far: recorders wrap the public API from /verif at run time',
                        baseline_off_cmd=BASE, source_commits=[], add_only=True),
             engines=[dict(name='tlc', path='/opt/veriftools/tla/tla2tools.jar', serves_properties=sorted(CHECKS),
                           kind_free_text='explicit-state model checker for the TLA+ specification in /verif/spec: MC (properties of the spec), GEN (behaviours replayed into the library), TV (recorded library executions validated against the spec)')],
             checks=[], not_applicable=[],
             notes='Every verdict is produced by TLC evaluating the TLA+ specification in /verif/spec; Python drives the library, projects its public state and formats. Known findings: /verif/known_findings/<id>.jsonl (exact keys), fixed defects: /verif/known_findings/FIXED.txt.')
    for pid in ALL:
        if pid in CHECKS:
            c = CHECKS[pid]
            e = dict(property_id=pid, quick_cmd='./check %s --tier quick' % pid,
                     evidence_file='/verif/evidence/%s.json' % pid, replay_cmd_template='./check %s --replay {path}' % pid,
                     engine='tlc', level_claimed=dict(category=c['level'][0], text=c['level'][1], design_ref=c['level'][2]),
                     level_note=c['note'], technique=c['technique'])
            if c.get('thorough'):
                e['thorough_cmd'] = './check %s --tier thorough' % pid
            m['checks'].append(e)
        else:
            m['not_applicable'].append(dict(property_id=pid, reason=NA_REASON))
    json.dump(m, open(os.path.join(V, 'MANIFEST.json'), 'w'), indent=1)
    print('checks:', [c['property_id'] for c in m['checks']])


if __name__ == '__main__':
    main()
