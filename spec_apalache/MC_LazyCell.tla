---- MODULE MC_LazyCell ----
EXTENDS Integers, Sequences
\* @type: Set(Int);
MCThreads == 1..5
\* @type: Seq(Int);
MCFull == <<1, 2, 3>>
VARIABLES
    \* @type: Seq(Int);
    slot,
    \* @type: Bool;
    set,
    \* @type: Int -> Str;
    pc,
    \* @type: Int -> Seq(Int);
    loc,
    \* @type: Int -> Seq(Int);
    answer
INSTANCE LazyCell WITH Threads <- MCThreads, Full <- MCFull, PublishFirst <- FALSE
====
