---- MODULE LazyCell ----
(***************************************************************************)
(* One lazily filled class-level table (no nested resolution), ANY number   *)
(* of threads: the inductive core of LazyInit.tla, written for Apalache.    *)
(* Design "build-then-publish": a thread that finds the slot unset builds   *)
(* the list locally, item by item, and stores it in the slot when complete. *)
(* IndInv is inductive (Init => IndInv, IndInv /\ Next => IndInv') and       *)
(* implies ReturnsFull for every number of threads; Apalache discharges      *)
(* both obligations symbolically (see README in this directory).            *)
(***************************************************************************)
EXTENDS Integers, Sequences, Apalache

CONSTANTS
    \* @type: Set(Int);
    Threads,
    \* @type: Seq(Int);
    Full,
    \* @type: Bool;
    PublishFirst      \* TRUE: the (refuted) design that stores the empty list in the slot first and appends in place

VARIABLES
    \* @type: Seq(Int);
    slot,
    \* @type: Bool;
    set,
    \* @type: Int -> Str;
    pc,
    \* @type: Int -> Seq(Int);
    loc,
    \* @type: Int -> Seq(Int);
    answer

Init ==
    /\ slot = <<>> /\ set = FALSE
    /\ pc = [t \in Threads |-> "Test"]
    /\ loc = [t \in Threads |-> <<>>]
    /\ answer = [t \in Threads |-> <<>>]

Test(t) ==
    /\ pc[t] = "Test"
    /\ pc' = [pc EXCEPT ![t] = IF set THEN "Ret" ELSE "Fill"]
    /\ IF PublishFirst /\ ~set
       THEN slot' = <<>> /\ set' = TRUE /\ UNCHANGED <<loc, answer>>
       ELSE UNCHANGED <<slot, set, loc, answer>>

Fill(t) ==
    /\ pc[t] = "Fill"
    /\ IF Len(loc[t]) < Len(Full)
       THEN /\ loc' = [loc EXCEPT ![t] = Append(loc[t], Full[Len(loc[t]) + 1])]
            /\ (IF PublishFirst THEN slot' = Append(loc[t], Full[Len(loc[t]) + 1]) ELSE UNCHANGED slot)
            /\ UNCHANGED <<set, pc, answer>>
       ELSE /\ slot' = loc[t] /\ set' = TRUE            \* publish the complete list
            /\ pc' = [pc EXCEPT ![t] = "Ret"]
            /\ UNCHANGED <<loc, answer>>

Ret(t) ==
    /\ pc[t] = "Ret"
    /\ answer' = [answer EXCEPT ![t] = slot]
    /\ pc' = [pc EXCEPT ![t] = "Done"]
    /\ UNCHANGED <<slot, set, loc>>

Next == \E t \in Threads : Test(t) \/ Fill(t) \/ Ret(t)

\* ---- property and inductive invariant -----------------------------------------
ReturnsFull == \A t \in Threads : pc[t] = "Done" => answer[t] = Full

IsPrefixOfFull(s) == Len(s) <= Len(Full) /\ \A i \in DOMAIN s : s[i] = Full[i]

IndInv ==
    /\ \A t \in Threads : pc[t] \in {"Test", "Fill", "Ret", "Done"}
    /\ (set => slot = Full)
    /\ \A t \in Threads : IsPrefixOfFull(loc[t])
    /\ \A t \in Threads : pc[t] = "Ret" => set
    /\ \A t \in Threads : pc[t] = "Done" => answer[t] = Full

\* for Apalache's --init: ANY state satisfying the invariant (Gen(n): an arbitrary value whose collections have
\* at most n elements -- the threads and the table of the instance are smaller than that)
IndInit ==
    /\ slot = Gen(8) /\ set \in BOOLEAN
    /\ pc = Gen(8) /\ DOMAIN pc = Threads
    /\ loc = Gen(8) /\ DOMAIN loc = Threads
    /\ answer = Gen(8) /\ DOMAIN answer = Threads
    /\ IndInv
====
