#!/usr/bin/env python3
"""xsd2tla.py -- compile the pinned MusicXML 4.0 schema into TLA+ constants (module Schema).

Stdlib only.  Does NOT import musicxml: this is the independent reading of the schema that
the specification uses as its oracle.  Input: /verif/schema/musicxml_4_0.xsd, xml.xsd.
Output: spec/Schema.tla  (+ schema.json with the same tables for the harness's *generators*;
the harness never judges with it).

Tables emitted
  CM[type]        Glushkov position automaton of the content model (element-content types)
  CMTree[type]    the particle tree itself (for SchemaSelfCheck: second, direct semantics)
  ElemType[name]  type bound to each partwise element name
  ElemKind[name]  "complex" | "simple"
  AttrDecl[type]  set of [name, type, req] (XML names: xml:lang, xlink:href, hyphenated)
  SimpleBase[type] simple type of the text content ("" when none)
  HasText[type]   "text" | "empty" | "elements"
  ST[name]        flattened simple type definitions
  PAT[id]         Glushkov automata of the xs:pattern facets over code-point classes
"""
import sys, os, json, hashlib
import xml.etree.ElementTree as ET

XS = '{http://www.w3.org/2001/XMLSchema}'
HERE = os.path.dirname(os.path.abspath(__file__))
ROOT = os.path.dirname(HERE)
SCHEMA_DIR = os.path.join(ROOT, 'schema')


def tag(n):
    return n.tag[len(XS):] if n.tag.startswith(XS) else n.tag


# --------------------------------------------------------------------------------------
# reading
# --------------------------------------------------------------------------------------
class Schema:
    def __init__(self):
        self.root = ET.parse(os.path.join(SCHEMA_DIR, 'musicxml_4_0.xsd')).getroot()
        self.xmlroot = ET.parse(os.path.join(SCHEMA_DIR, 'xml.xsd')).getroot()
        self.groups = {g.get('name'): g for g in self.root.findall(XS + 'group')}
        self.agroups = {g.get('name'): g for g in self.root.findall(XS + 'attributeGroup')}
        self.ctypes = {c.get('name'): c for c in self.root.findall(XS + 'complexType')}
        self.stypes = {s.get('name'): s for s in self.root.findall(XS + 'simpleType')}
        self.xstypes = {'xs:' + s.get('name'): s for s in self.xmlroot.findall(XS + 'simpleType')}
        # anonymous complex types of the partwise tree
        sp = self.root.find(XS + "element[@name='score-partwise']")
        self.partwise = sp
        ct_sp = sp.find(XS + 'complexType')
        part = [e for e in ct_sp.iter(XS + 'element') if e.get('name') == 'part'][0]
        ct_part = part.find(XS + 'complexType')
        meas = [e for e in ct_part.iter(XS + 'element') if e.get('name') == 'measure'][0]
        ct_meas = meas.find(XS + 'complexType')
        attrs = self.ctypes['attributes']
        directive = [e for e in attrs.iter(XS + 'element') if e.get('name') == 'directive'][0]
        ct_dir = directive.find(XS + 'complexType')
        self.anon = {'score-partwise': ct_sp, 'part': ct_part, 'measure': ct_meas, 'directive': ct_dir}
        for k in self.anon:
            assert k not in self.ctypes, k
        self.alltypes = dict(self.ctypes)
        self.alltypes.update(self.anon)
        # element declarations in partwise scope (everything not under score-timewise)
        tw = self.root.find(XS + "element[@name='score-timewise']")
        tw_elems = set(id(e) for e in tw.iter(XS + 'element'))
        self.decls = []   # (name, typename, context)
        parent = {}
        for p in self.root.iter():
            for c in p:
                parent[id(c)] = p
        for e in self.root.iter(XS + 'element'):
            if id(e) in tw_elems:
                continue
            name = e.get('name')
            t = e.get('type')
            if t is None:
                assert name in self.anon, name
                t = name
            # context = nearest named ancestor
            q = e
            ctx = ''
            while id(q) in parent:
                q = parent[id(q)]
                if q.get('name') and tag(q) in ('complexType', 'group', 'element'):
                    ctx = tag(q) + ':' + q.get('name')
                    break
            self.decls.append((name, t, ctx))
        self.elemtype = {}
        for n, t, _ in self.decls:
            assert self.elemtype.setdefault(n, t) == t, (n, t)

    # ---- particles -------------------------------------------------------------------
    @staticmethod
    def occ(n):
        mi = int(n.get('minOccurs', '1'))
        ma = n.get('maxOccurs', '1')
        return mi, (None if ma == 'unbounded' else int(ma))

    def particle(self, n):
        t = tag(n)
        mi, ma = self.occ(n)
        if t == 'element':
            return ('e', n.get('name') or n.get('ref'), mi, ma)
        if t in ('sequence', 'choice'):
            kids = [self.particle(c) for c in n if tag(c) in ('element', 'sequence', 'choice', 'group')]
            return ('s' if t == 'sequence' else 'c', kids, mi, ma)
        if t == 'group':
            g = self.groups[n.get('ref')]
            inner = [c for c in g if tag(c) in ('sequence', 'choice')]
            assert len(inner) == 1
            return ('s', [self.particle(inner[0])], mi, ma)
        raise ValueError(t)

    def ct_particle(self, ct):
        for c in ct:
            t = tag(c)
            if t in ('sequence', 'choice', 'group'):
                return self.particle(c)
            if t == 'complexContent':
                ext = c[0]
                assert tag(ext) == 'extension'
                bp = self.ct_particle(self.ctypes[ext.get('base')])
                extra = [self.particle(x) for x in ext if tag(x) in ('sequence', 'choice', 'group')]
                if extra:
                    return ('s', ([bp] if bp else []) + extra, 1, 1)
                return bp
        return None

    # ---- attributes ------------------------------------------------------------------
    REFS = {
        'xml:lang': 'xs:language', 'xml:space': 'xml:space',
        'xlink:href': 'xs:anyURI', 'xlink:type': 'xlink:type', 'xlink:role': 'xs:token',
        'xlink:title': 'xs:token', 'xlink:show': 'xlink:show', 'xlink:actuate': 'xlink:actuate',
    }

    def attrs_of(self, node):
        """attributes declared directly under node (attribute / attributeGroup children)"""
        out = []
        for c in node:
            t = tag(c)
            if t == 'attribute':
                if c.get('ref'):
                    out.append((c.get('ref'), self.REFS[c.get('ref')], c.get('use') == 'required'))
                else:
                    assert c.get('type'), c.attrib
                    out.append((c.get('name'), c.get('type'), c.get('use') == 'required'))
            elif t == 'attributeGroup':
                out.extend(self.attrs_of(self.agroups[c.get('ref')]))
        return out

    def ct_attrs(self, ct):
        for c in ct:
            t = tag(c)
            if t in ('simpleContent', 'complexContent'):
                ext = c[0]
                assert tag(ext) == 'extension', tag(ext)
                base = ext.get('base')
                inherited = self.ct_attrs(self.ctypes[base]) if base in self.ctypes else []
                return inherited + self.attrs_of(ext)
        return self.attrs_of(ct)

    def ct_simple_base(self, ct):
        for c in ct:
            if tag(c) == 'simpleContent':
                base = c[0].get('base')
                if base in self.ctypes:
                    return self.ct_simple_base(self.ctypes[base])
                return base
        return ''

    def ct_mixed(self, ct):
        return ct.get('mixed') == 'true'


# --------------------------------------------------------------------------------------
# Glushkov construction
# --------------------------------------------------------------------------------------
def expand(p):
    """particle -> regex AST over ('sym',a) ('cat',[..]) ('alt',[..]) ('opt',x) ('star',x) ('eps',)"""
    kind, mi, ma = p[0], p[2], p[3]
    if kind == 'e':
        base = lambda: ('sym', p[1])
    elif kind == 's':
        base = lambda: ('cat', [expand(q) for q in p[1]])
    else:
        base = lambda: ('alt', [expand(q) for q in p[1]])
    return repeat(base, mi, ma)


def repeat(base, mi, ma):
    parts = [base() for _ in range(mi)]
    if ma is None:
        parts.append(('star', base()))
    else:
        tail = None
        for _ in range(ma - mi):
            tail = ('opt', base() if tail is None else ('cat', [base(), tail]))
        if tail:
            parts.append(tail)
    if not parts:
        return ('eps',)
    return parts[0] if len(parts) == 1 else ('cat', parts)


class Glushkov:
    def __init__(self, ast):
        self.lab = []
        self.follow = set()
        self.nullable, self.first, self.last = self.go(ast)

    def go(self, a):
        k = a[0]
        if k == 'eps':
            return True, set(), set()
        if k == 'sym':
            self.lab.append(a[1])
            i = len(self.lab)
            return False, {i}, {i}
        if k == 'cat':
            n, f, l = True, set(), set()
            for x in a[1]:
                n2, f2, l2 = self.go(x)
                for p in l:
                    for q in f2:
                        self.follow.add((p, q))
                f = (f | f2) if n else f
                l = (l | l2) if n2 else l2
                n = n and n2
            return n, f, l
        if k == 'alt':
            n, f, l = False, set(), set()
            for x in a[1]:
                n2, f2, l2 = self.go(x)
                n = n or n2
                f |= f2
                l |= l2
            return n, f, l
        if k == 'opt':
            n, f, l = self.go(a[1])
            return True, f, l
        if k == 'star':
            n, f, l = self.go(a[1])
            for p in l:
                for q in f:
                    self.follow.add((p, q))
            return True, f, l
        raise ValueError(k)

    def fol(self):
        return {p: sorted(q for (a, q) in self.follow if a == p) for p in range(1, len(self.lab) + 1)}


# --------------------------------------------------------------------------------------
# xs:pattern  ->  AST over code-point classes
# --------------------------------------------------------------------------------------
MAXCP = 0x10FFFF
NAME_START = [(0x3A, 0x3A), (0x41, 0x5A), (0x5F, 0x5F), (0x61, 0x7A), (0xC0, 0xD6), (0xD8, 0xF6), (0xF8, 0x2FF),
              (0x370, 0x37D), (0x37F, 0x1FFF), (0x200C, 0x200D), (0x2070, 0x218F), (0x2C00, 0x2FEF),
              (0x3001, 0xD7FF), (0xF900, 0xFDCF), (0xFDF0, 0xFFFD), (0x10000, 0xEFFFF)]
NAME_CHAR = NAME_START + [(0x2D, 0x2E), (0x30, 0x39), (0xB7, 0xB7), (0x300, 0x36F), (0x203F, 0x2040)]
DIGIT = [(0x30, 0x39)]   # \d restricted to ASCII digits: tokens never use other Nd characters


def norm(r):
    r = sorted(r)
    out = []
    for lo, hi in r:
        if out and lo <= out[-1][1] + 1:
            out[-1] = (out[-1][0], max(out[-1][1], hi))
        else:
            out.append((lo, hi))
    return out


def compl(r):
    r = norm(r)
    out = []
    cur = 0
    for lo, hi in r:
        if lo > cur:
            out.append((cur, lo - 1))
        cur = hi + 1
    if cur <= MAXCP:
        out.append((cur, MAXCP))
    return out


def minus(a, b):
    cb = compl(b)
    out = []
    for lo, hi in norm(a):
        for l2, h2 in cb:
            x, y = max(lo, l2), min(hi, h2)
            if x <= y:
                out.append((x, y))
    return norm(out)


class RegexParser:
    def __init__(self, s):
        self.s = s
        self.i = 0

    def peek(self):
        return self.s[self.i] if self.i < len(self.s) else None

    def eat(self, c=None):
        ch = self.s[self.i]
        assert c is None or ch == c, (self.s, self.i, c)
        self.i += 1
        return ch

    def parse(self):
        a = self.alt()
        assert self.i == len(self.s), (self.s, self.i)
        return a

    def alt(self):
        branches = [self.cat()]
        while self.peek() == '|':
            self.eat()
            branches.append(self.cat())
        return branches[0] if len(branches) == 1 else ('alt', branches)

    def cat(self):
        items = []
        while self.peek() is not None and self.peek() not in '|)':
            items.append(self.quant())
        if not items:
            return ('eps',)
        return items[0] if len(items) == 1 else ('cat', items)

    def quant(self):
        a = self.atom()
        while self.peek() is not None and self.peek() in '*+?{':
            c = self.eat()
            if c == '*':
                a = _rep(a, 0, None)
            elif c == '+':
                a = _rep(a, 1, None)
            elif c == '?':
                a = _rep(a, 0, 1)
            else:
                j = self.s.index('}', self.i)
                body = self.s[self.i:j]
                self.i = j + 1
                if ',' in body:
                    lo, hi = body.split(',')
                    a = _rep(a, int(lo), None if hi == '' else int(hi))
                else:
                    a = _rep(a, int(body), int(body))
        return a

    def esc(self):
        self.eat('\\')
        c = self.eat()
        if c == 'd':
            return DIGIT
        if c == 'c':
            return NAME_CHAR
        if c == 'i':
            return NAME_START
        return [(ord(c), ord(c))]

    def atom(self):
        c = self.peek()
        if c == '(':
            self.eat()
            a = self.alt()
            self.eat(')')
            return a
        if c == '[':
            return ('sym', tuple(self.cls()))
        if c == '\\':
            return ('sym', tuple(norm(self.esc())))
        if c == '.':
            self.eat()
            return ('sym', tuple(minus([(0, MAXCP)], [(10, 10), (13, 13)])))
        self.eat()
        return ('sym', ((ord(c), ord(c)),))

    def cls(self):
        self.eat('[')
        neg = False
        if self.peek() == '^':
            self.eat()
            neg = True
        r = []
        sub = None
        while self.peek() != ']':
            if self.peek() == '-' and self.s[self.i + 1] == '[':
                self.eat()
                sub = self.cls()
                continue
            if self.peek() == '\\':
                r.extend(self.esc())
                continue
            a = self.eat()
            if self.peek() == '-' and self.s[self.i + 1] not in '][':
                self.eat()
                b = self.eat()
                r.append((ord(a), ord(b)))
            else:
                r.append((ord(a), ord(a)))
        self.eat(']')
        r = norm(r)
        if neg:
            r = compl(r)
        if sub is not None:
            r = minus(r, sub)
        return r


def _rep(a, lo, hi):
    return repeat(lambda: a, lo, hi)


# --------------------------------------------------------------------------------------
# simple types
# --------------------------------------------------------------------------------------
BUILTIN = {
    # name: (prim, integer?, whitespace, base)
    'xs:string': ('string', False, 'preserve', None),
    'xs:token': ('string', False, 'collapse', 'xs:string'),
    'xs:anyURI': ('string', False, 'collapse', None),
    'xs:decimal': ('decimal', False, 'collapse', None),
    'xs:integer': ('decimal', True, 'collapse', 'xs:decimal'),
    'xs:nonNegativeInteger': ('decimal', True, 'collapse', 'xs:integer'),
    'xs:positiveInteger': ('decimal', True, 'collapse', 'xs:nonNegativeInteger'),
    'xs:date': ('date', False, 'collapse', None),
}
HAND = {  # types of the imported namespaces that are not in the repository's files (W3C xml.xsd / MusicXML xlink.xsd)
    'xml:space': ['default', 'preserve'],
    'xlink:type': ['simple'],
    'xlink:show': ['new', 'replace', 'embed', 'other', 'none'],
    'xlink:actuate': ['onRequest', 'onLoad', 'other', 'none'],
}


class SimpleTypes:
    def __init__(self, sch):
        self.sch = sch
        self.pats = []      # list of (source, Glushkov)
        self.patid = {}
        self.table = {}
        self.anon = 0
        for n in BUILTIN:
            self.resolve(n)
        for n in HAND:
            self.resolve(n)
        for n in sch.xstypes:
            self.resolve(n)
        for n in sch.stypes:
            self.resolve(n)

    def pat(self, src):
        if src not in self.patid:
            g = Glushkov(RegexParser(src).parse())
            self.pats.append((src, g))
            self.patid[src] = len(self.pats)
        return self.patid[src]

    def blank(self, prim, integer, ws):
        return dict(prim=prim, int=integer, ws=ws, hasEnum=False, enum=[], pats=[], hasMin=False, minV=0,
                    minEx=False, hasMax=False, maxV=0, minLen=0, union=[])

    def resolve(self, name):
        if name in self.table:
            return self.table[name]
        if name in HAND:
            d = self.blank('string', False, 'collapse')
            d['hasEnum'] = True
            d['enum'] = list(HAND[name])
            self.table[name] = d
            return d
        if name in BUILTIN:
            prim, integer, ws, base = BUILTIN[name]
            d = self.blank(prim, integer, ws)
            if name == 'xs:nonNegativeInteger':
                d.update(hasMin=True, minV=0)
            if name == 'xs:positiveInteger':
                d.update(hasMin=True, minV=1)
            self.table[name] = d
            return d
        node = self.sch.xstypes.get(name)
        if node is None:
            node = self.sch.stypes[name]
        d = self.from_node(node, name)
        self.table[name] = d
        return d

    def from_node(self, node, name):
        for c in node:
            t = tag(c)
            if t == 'restriction':
                base = c.get('base')
                b = self.resolve(base if (base.startswith('xs:') or base in self.sch.stypes) else base)
                d = json.loads(json.dumps(b))
                enum = [e.get('value') for e in c.findall(XS + 'enumeration')]
                if enum:
                    d['hasEnum'] = True
                    d['enum'] = enum
                pp = [self.pat(p.get('value')) for p in c.findall(XS + 'pattern')]
                if pp:
                    d['pats'] = d['pats'] + [pp]
                for f in c:
                    ft = tag(f)
                    if ft in ('minInclusive', 'minExclusive'):
                        v = int(f.get('value'))
                        if not d['hasMin'] or v > d['minV'] or (v == d['minV'] and ft == 'minExclusive'):
                            d.update(hasMin=True, minV=v, minEx=(ft == 'minExclusive'))
                    elif ft == 'maxInclusive':
                        v = int(f.get('value'))
                        if not d['hasMax'] or v < d['maxV']:
                            d.update(hasMax=True, maxV=v)
                    elif ft == 'minLength':
                        d['minLen'] = max(d['minLen'], int(f.get('value')))
                    elif ft in ('enumeration', 'pattern', 'annotation'):
                        pass
                    else:
                        raise ValueError(ft)
                return d
            if t == 'union':
                members = (c.get('memberTypes') or '').split()
                for m in members:
                    self.resolve(m)
                for k, inner in enumerate(c.findall(XS + 'simpleType')):
                    an = '%s#%d' % (name, k + 1)
                    self.table[an] = self.from_node(inner, an)
                    members.append(an)
                d = self.blank('union', False, 'collapse')
                d['union'] = members
                return d
        raise ValueError(name)


# --------------------------------------------------------------------------------------
# TLA+ emission
# --------------------------------------------------------------------------------------
def q(s):
    return '"' + s.replace('\\', '\\\\').replace('"', '\\"') + '"'


def tset(xs):
    return '{' + ','.join(xs) + '}'


def tseq(xs):
    return '<<' + ','.join(xs) + '>>'


def tbool(b):
    return 'TRUE' if b else 'FALSE'


def fun(items):
    """items: list of (key string, tla expr) -> function literal usable with hyphenated keys"""
    if not items:
        return '<<>>'
    return ' @@\n  '.join('%s :> %s' % (q(k), v) for k, v in items)


def aut_tla(g, lab=lambda x: q(x)):
    fol = g.fol()
    n = len(g.lab)
    return '[lab |-> %s, first |-> %s, last |-> %s, nullable |-> %s, follow |-> %s]' % (
        tseq(lab(x) for x in g.lab), tset(str(x) for x in sorted(g.first)), tset(str(x) for x in sorted(g.last)),
        tbool(g.nullable), tseq(tset(str(x) for x in fol[p]) for p in range(1, n + 1)))


def tree_tla(p):
    kind, mi, ma = p[0], p[2], p[3]
    hi = 'Unb' if ma is None else str(ma)
    if kind == 'e':
        return '[k |-> "e", n |-> %s, lo |-> %d, hi |-> %s, ch |-> <<>>]' % (q(p[1]), mi, hi)
    return '[k |-> %s, n |-> "", lo |-> %d, hi |-> %s, ch |-> %s]' % (q(kind), mi, hi, tseq(tree_tla(c) for c in p[1]))


def alphabet(p, out=None):
    out = [] if out is None else out
    if p[0] == 'e':
        if p[1] not in out:
            out.append(p[1])
    else:
        for c in p[1]:
            alphabet(c, out)
    return out


def leaves(p):
    if p[0] == 'e':
        return [p[1]]
    out = []
    for c in p[1]:
        out.extend(leaves(c))
    return out


def build():
    sch = Schema()
    st = SimpleTypes(sch)
    cm, trees, attrs, sbase, hastext = {}, {}, {}, {}, {}
    for name, ct in sorted(sch.alltypes.items()):
        p = sch.ct_particle(ct)
        if p is not None and alphabet(p):
            cm[name] = Glushkov(expand(p))
            trees[name] = p
        attrs[name] = sch.ct_attrs(ct)
        sbase[name] = sch.ct_simple_base(ct)
        if name in cm:
            hastext[name] = 'mixed' if sch.ct_mixed(ct) else 'elements'
        elif sbase[name]:
            hastext[name] = 'text'
        else:
            hastext[name] = 'empty'
        for (an, at, rq) in attrs[name]:
            st.resolve(at)
        if sbase[name]:
            st.resolve(sbase[name])
    elemkind = {}
    for n, t in sch.elemtype.items():
        elemkind[n] = 'complex' if t in sch.alltypes else 'simple'
        if elemkind[n] == 'simple':
            st.resolve(t)
    return sch, st, cm, trees, attrs, sbase, hastext, elemkind


def emit(path_tla, path_json):
    sch, st, cm, trees, attrs, sbase, hastext, elemkind = build()
    L = []
    L.append('---- MODULE Schema ----')
    L.append('\\* GENERATED by gen/xsd2tla.py from schema/musicxml_4_0.xsd + schema/xml.xsd -- do not edit.')
    sha = open(os.path.join(SCHEMA_DIR, 'SHA256SUMS')).read().strip().replace('\n', ' ; ')
    L.append('\\* ' + sha)
    L.append('EXTENDS TLC, Integers, Sequences')
    L.append('Unb == 0 - 1')
    L.append('SchemaSha == %s' % q(hashlib.sha256(open(os.path.join(SCHEMA_DIR, 'musicxml_4_0.xsd'), 'rb').read()).hexdigest()))
    L.append('CMTypes == %s' % tset(q(k) for k in sorted(cm)))
    L.append('ComplexTypes == %s' % tset(q(k) for k in sorted(attrs)))
    for k in sorted(cm):
        L.append('CM_%s == %s' % (ident(k), aut_tla(cm[k])))
    L.append('CM == ' + fun([(k, 'CM_%s' % ident(k)) for k in sorted(cm)]))
    for k in sorted(trees):
        L.append('CMTree_%s == %s' % (ident(k), tree_tla(trees[k])))
    L.append('CMTree == ' + fun([(k, 'CMTree_%s' % ident(k)) for k in sorted(trees)]))
    L.append('Alphabet == ' + fun([(k, tseq(q(a) for a in alphabet(trees[k]))) for k in sorted(trees)]))
    # leaf names of the particle tree in document order (forward=j addresses the j-th leaf of a name)
    L.append('Leaves == ' + fun([(k, tseq(q(a) for a in leaves(trees[k]))) for k in sorted(trees)]))
    L.append('ElemNames == %s' % tset(q(k) for k in sorted(sch.elemtype)))
    L.append('ElemType == ' + fun([(k, q(v)) for k, v in sorted(sch.elemtype.items())]))
    L.append('ElemKind == ' + fun([(k, q(v)) for k, v in sorted(elemkind.items())]))
    L.append('NDecls == %d' % len(sch.decls))
    L.append('AttrDecl == ' + fun([(k, tset('[name |-> %s, type |-> %s, req |-> %s]' % (q(a), q(t), tbool(r))
                                             for (a, t, r) in sorted(set(v)))) for k, v in sorted(attrs.items())]))
    L.append('SimpleBase == ' + fun([(k, q(v)) for k, v in sorted(sbase.items())]))
    L.append('HasText == ' + fun([(k, q(v)) for k, v in sorted(hastext.items())]))
    # simple types
    def st_tla(d):
        return ('[prim |-> %s, int |-> %s, ws |-> %s, hasEnum |-> %s, enum |-> %s, enumcp |-> %s, pats |-> %s, hasMin |-> %s, minV |-> %d, '
                'minEx |-> %s, hasMax |-> %s, maxV |-> %d, minLen |-> %d, union |-> %s]') % (
            q(d['prim']), tbool(d['int']), q(d['ws']), tbool(d['hasEnum']), tset(q(e) for e in d['enum']),
            tset(tseq(str(ord(c)) for c in e) for e in d['enum']),
            tseq(tset(str(i) for i in grp) for grp in d['pats']), tbool(d['hasMin']), d['minV'], tbool(d['minEx']),
            tbool(d['hasMax']), d['maxV'], d['minLen'], tseq(q(m) for m in d['union']))
    L.append('SimpleTypes == %s' % tset(q(k) for k in sorted(st.table)))
    L.append('ST == ' + fun([(k, st_tla(v)) for k, v in sorted(st.table.items())]))
    # simple types as declared (unflattened) -- compared by C03 with what the library loaded
    decl = {}
    for nm, node in list(sch.xstypes.items()) + list(sch.stypes.items()):
        d = dict(base='', enum=[], pats=[], facets=[], members=[])
        r = node.find(XS + 'restriction')
        if r is not None:
            d['base'] = r.get('base', '')
            for ch in r:
                tg = tag(ch)
                if tg == 'enumeration':
                    d['enum'].append(ch.get('value'))
                elif tg == 'pattern':
                    d['pats'].append(ch.get('value'))
                elif tg in ('minInclusive', 'maxInclusive', 'minExclusive', 'maxExclusive', 'minLength'):
                    d['facets'].append((tg, ch.get('value')))
        u = node.find(XS + 'union')
        if u is not None:
            d['members'] = (u.get('memberTypes') or '').split()
        decl[nm] = d
    L.append('DeclaredSimple == %s' % tset(q(k) for k in sorted(decl)))
    L.append('STDecl == ' + fun([(k, '[base |-> %s, enum |-> %s, pats |-> %s, facets |-> %s, members |-> %s]' % (
        q(v['base']), tseq(q(e) for e in v['enum']), tset(q(e) for e in v['pats']),
        tset('<<%s,%s>>' % (q(a), q(b)) for a, b in v['facets']), tseq(q(m) for m in v['members'])))
        for k, v in sorted(decl.items())]))
    def cls_tla(r):
        return tseq('<<%d,%d>>' % (lo, hi) for lo, hi in r)
    L.append('PAT == ' + tseq(aut_tla(g, cls_tla) for (_, g) in st.pats))
    L.append('PATSrc == ' + tseq(q(src) for (src, _) in st.pats))
    L.append('====')
    with open(path_tla, 'w') as f:
        f.write('\n'.join(L) + '\n')
    J = dict(
        cm={k: dict(lab=g.lab, first=sorted(g.first), last=sorted(g.last), nullable=g.nullable,
                    follow={str(p): v for p, v in g.fol().items()}) for k, g in cm.items()},
        trees=trees, alphabet={k: alphabet(trees[k]) for k in trees}, leaves={k: leaves(trees[k]) for k in trees},
        elemtype=sch.elemtype, elemkind=elemkind, decls=sch.decls,
        attrs={k: sorted(set(v)) for k, v in attrs.items()}, sbase=sbase, hastext=hastext,
        st=st.table, stdecl=decl, pats=[dict(src=s, lab=[list(map(list, x)) for x in g.lab], first=sorted(g.first),
                                last=sorted(g.last), nullable=g.nullable,
                                follow={str(p): v for p, v in g.fol().items()}) for s, g in st.pats],
    )
    with open(path_json, 'w') as f:
        json.dump(J, f, indent=0, sort_keys=True)
    return dict(types=len(attrs), cmtypes=len(cm), elems=len(sch.elemtype), decls=len(sch.decls),
                simple=len(st.table), pats=len(st.pats), positions=sum(len(g.lab) for g in cm.values()))


def ident(k):
    return k.replace('-', '_').replace(':', '_').replace('#', '_')


if __name__ == '__main__':
    out_tla = sys.argv[1] if len(sys.argv) > 1 else os.path.join(ROOT, 'spec', 'Schema.tla')
    out_json = sys.argv[2] if len(sys.argv) > 2 else os.path.join(ROOT, 'spec', 'schema.json')
    print(json.dumps(emit(out_tla, out_json)))
